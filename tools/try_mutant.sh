#!/bin/sh
# usage: tools/try_mutant.sh <patch.diff> <Cnn>...   — applies the patch to /repo, runs the checks, reverts.
patch="$1"; shift
cd /repo || exit 2
if ! git diff --quiet; then echo "repo dirty"; exit 2; fi
git apply "$patch" 2>/dev/null || patch -p1 --fuzz=3 -s < "$patch" || { echo "patch does not apply"; git checkout -- .; find . -name "*.orig" -o -name "*.rej" | xargs rm -f; exit 2; }
rc=0
for p in "$@"; do
  (cd /verif && ./check "$p" 2>&1 | grep -E "VIOLATION|KNOWN-FINDING|obligation:|quick:|UNDECIDED" | head -20)
done
git checkout -- . ; find . -name "*.orig" -o -name "*.rej" | xargs rm -f
git status --short | head -3

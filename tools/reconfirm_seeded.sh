#!/bin/bash
# Re-validates the seeded corpus against /repo's HEAD (fixes made after a change was confirmed can make it harmless):
# for each seeded/<id>: scratch worktree of HEAD, apply the patch, run the demonstration; it must still FAIL.
# usage: tools/reconfirm_seeded.sh <out.tsv> [ids...]
export GOFLAGS=-mod=mod GOPROXY=off GOSUMDB=off GOTOOLCHAIN=local
out="$1"; shift; ids="$@"; [ -z "$ids" ] && ids=$(ls /verif/seeded)
WT=$(mktemp -d /tmp/reconfirm.XXXX); rmdir $WT; git -C /repo worktree add -q --detach $WT HEAD || exit 2
for id in $ids; do
  d=/verif/seeded/$id
  place=$(python3 -c "import json;print(json.load(open('$d/meta.json')).get('demo_place_at',''))")
  case "$place" in *.go) dest=$WT/$place;; *) dest=$WT/$place/zz_${id}_demo_test.go;; esac
  pkgdir=$(dirname ${dest#$WT/})
  if ! git -C $WT apply $d/patch.diff 2>/dev/null; then echo -e "$id\tpatch-does-not-apply" >> $out; continue; fi
  cp $d/demo_test.go $dest
  (cd $WT && timeout 300 go test -vet=off -count=1 -timeout 200s -run "${id}" ./$pkgdir/ > /tmp/reconfirm_$id.log 2>&1); rc=$?
  ran=$(grep -c "^--- \|^=== RUN\|^ok\|^FAIL" /tmp/reconfirm_$id.log); grep -q "no tests to run" /tmp/reconfirm_$id.log && rc=notests
  echo -e "$id\tdemo_with_patch_rc=$rc" >> $out
  rm -f $dest /tmp/reconfirm_$id.log; git -C $WT checkout -q -- . ; git -C $WT clean -fdq
done
git -C /repo worktree remove --force $WT; echo DONE >> $out

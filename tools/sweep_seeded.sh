#!/bin/bash
# usage: tools/sweep_seeded.sh [ids...] — for each seeded change: apply to /repo, run the check of its property, revert. Prints one line per change.
cd /repo || exit 2
git diff --quiet || { echo "repo dirty"; exit 2; }
ids="$@"; [ -z "$ids" ] && ids=$(ls /verif/seeded)
claimed=$(python3 -c "import json;print(' '.join(c['property_id'] for c in json.load(open('/verif/MANIFEST.json'))['checks']))")
for id in $ids; do
  p=$(python3 -c "import json;print(json.load(open('/verif/seeded/$id/meta.json'))['property'])")
  case " $claimed " in *" $p "*) ;; *) echo "$id $p not-claimed"; continue;; esac
  if ! git apply /verif/seeded/$id/patch.diff 2>/dev/null; then
     patch -p1 --fuzz=3 -s < /verif/seeded/$id/patch.diff >/dev/null 2>&1 || { echo "$id $p patch-does-not-apply"; git checkout -- .; find . -name "*.orig" -o -name "*.rej" | xargs rm -f; continue; }
  fi
  out=$(cd /verif && ./check $p 2>&1)
  v=$(echo "$out" | grep -c '^VIOLATION')
  first=$(echo "$out" | grep -m1 'obligation:' )
  echo "$id $p violations=$v $first"
  git checkout -- . ; find . -name "*.orig" -o -name "*.rej" | xargs rm -f
done
cd /verif && git status --short evidence replay | head -2

#!/bin/bash
# usage: tools/sweep_seeded.sh [ids...] — for each seeded change: apply it in a SCRATCH worktree of /repo's HEAD (never in /repo),
# run the check of its property against that worktree (GOVC_REPO) with evidence/replay redirected (GOVC_OUT), print one line.
ids="$@"; [ -z "$ids" ] && ids=$(ls /verif/seeded)
WT=$(mktemp -d /tmp/govc-sweep.XXXX); OUT=$(mktemp -d /tmp/govc-sweep-out.XXXX)
rmdir $WT; git -C /repo worktree add -q --detach $WT HEAD || exit 2
claimed=$(python3 -c "import json;print(' '.join(c['property_id'] for c in json.load(open('/verif/MANIFEST.json'))['checks']))")
for id in $ids; do
  p=$(python3 -c "import json;print(json.load(open('/verif/seeded/$id/meta.json'))['property'])")
  case " $claimed " in *" $p "*) ;; *) echo "$id $p not-claimed"; continue;; esac
  # strict application only: a patch applied with fuzz can land in the wrong function
  if ! git -C $WT apply /verif/seeded/$id/patch.diff 2>/dev/null; then echo "$id $p patch-does-not-apply"; continue; fi
  out=$(cd /verif && GOVC_REPO=$WT GOVC_OUT=$OUT ./check $p ${SWEEP_ARGS} 2>&1)
  v=$(echo "$out" | grep -c '^VIOLATION')
  first=$(echo "$out" | grep -m1 'obligation:' )
  echo "$id $p violations=$v $first"
  git -C $WT checkout -q -- . ; git -C $WT clean -fdq
done
git -C /repo worktree remove --force $WT; rm -rf $OUT

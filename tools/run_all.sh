#!/bin/sh
# Runs every claimed check once on the current tree (refreshes evidence/); prints the summary line of each.
cd /verif
for p in $(python3 -c "import json;print(' '.join(c['property_id'] for c in json.load(open('MANIFEST.json'))['checks']))"); do
  ./check $p 2>&1 | grep -E "^VIOLATION|^KNOWN-FINDING|quick:|thorough:"
done

#!/bin/bash
# Confirms seeded changes written by sub-agents (ROUND=r2|r3 selects /tmp/wt/$ROUND-<prop>-out): usage confirm_r2.sh <out.tsv> <ids...>  (ids like C01C)
# For each: scratch worktree of /repo (HEAD, else the commit the sub-agent worked from), build, full suite with the
# patch, demonstration with and without the patch. The worktree is removed afterwards.
export GOFLAGS=-mod=mod GOPROXY=off GOSUMDB=off GOTOOLCHAIN=local
out="$1"; shift
WT=/tmp/wt/confirm-$$
for id in "$@"; do
  pid=${id%?}
  dir=/tmp/wt/${ROUND:-r2}-$pid-out
  patch=$dir/$id.patch.diff
  meta=$dir/$id.meta.json
  demo=$(ls $dir/${id}_demo_test.go 2>/dev/null)
  [ -z "$demo" ] && { echo -e "$id\tno-demo" >> $out; continue; }
  place=$(python3 -c "import json;print(json.load(open('$meta')).get('demo_place_at',''))")
  base=HEAD
  git -C /repo worktree add -q --detach $WT HEAD
  if ! git -C $WT apply --check $patch 2>/dev/null; then
    git -C /repo worktree remove --force $WT; base=${R2BASE:-12144b4}
    git -C /repo worktree add -q --detach $WT $base
  fi
  case "$place" in *.go) dest=$WT/$place;; *) dest=$WT/$place/zz_${id}_demo_test.go;; esac
  pkgdir=$(dirname ${dest#$WT/})
  cp $demo $dest
  (cd $WT && timeout 300 go test -vet=off -count=1 -timeout 200s -run "Test${id}" ./$pkgdir/ > /tmp/wt/confirm_$id.nopatch.log 2>&1); rc0=$?
  git -C $WT apply $patch; ap=$?
  (cd $WT && go build ./... > /tmp/wt/confirm_$id.build.log 2>&1); rcb=$?
  (cd $WT && timeout 300 go test -vet=off -count=1 -timeout 200s -run "Test${id}" ./$pkgdir/ > /tmp/wt/confirm_$id.patch.log 2>&1); rc1=$?
  rm -f $dest
  (cd $WT && timeout 600 go test -vet=off -count=1 -timeout 25m ./... > /tmp/wt/confirm_$id.suite.log 2>&1); rcs=$?
  echo -e "$id\tbase=$base\tapply=$ap\tbuild=$rcb\tsuite=$rcs\tdemo_nopatch=$rc0\tdemo_patch=$rc1" >> $out
  git -C /repo worktree remove --force $WT
done
echo DONE >> $out

#!/usr/bin/env python3
"""design_tables.py <sweep-result-files...>: (1) rewrites the fn / obl columns of the table in DESIGN.md section 7.3 from
evidence/*.json, (2) fills the seeded-changes table between SEEDED-TABLE-BEGIN/END from the sweep output lines
('<id> <prop> violations=N   obligation: <name>'), (3) records "detected": true/false and "detected_by" in each
seeded/<id>/meta.json (the thorough tier's self-test reads it)."""
import json,sys,re,glob,os
V='/verif'
sweep={}
for f in sys.argv[1:]:
    for l in open(f):
        m=re.match(r'(C\d\d[A-Z]) (C\d\d) (violations=(\d+)\s*(?:obligation: (.*))?|patch-does-not-apply|not-claimed)',l.strip())
        if not m: continue
        sid,prop=m.group(1),m.group(2)
        if m.group(4) is None: sweep[sid]=(prop,None,m.group(3)); continue
        sweep[sid]=(prop,int(m.group(4)),(m.group(5) or '').strip())
rows=[]
det=0
for d in sorted(os.listdir(V+'/seeded')):
    mp=f'{V}/seeded/{d}/meta.json'
    meta=json.load(open(mp))
    if d not in sweep:
        rows.append(f'| {d} | {meta["property"]} | {", ".join(meta.get("functions_changed",[]))[:70]} | not swept | |'); continue
    prop,n,first=sweep[d]
    if n is None:
        rows.append(f'| {d} | {prop} | {", ".join(meta.get("functions_changed",[]))[:70]} | {first} | |'); continue
    meta['detected']= n>0
    meta['detected_by']= first if n>0 else None
    json.dump(meta,open(mp,'w'),indent=1)
    det+= n>0
    fc=", ".join(x.replace('app.','').replace('(*','').replace(')','') for x in meta.get("functions_changed",[]))[:80]
    rows.append(f'| {d} | {prop} | {fc} | {"**caught** ("+str(n)+")" if n>0 else "missed"} | {("`"+first+"`") if n>0 else ""} |')
table=['| Change | Property | Functions changed | Result (violations) | First obligation reported |','|---|---|---|---|---|']+rows
table.append('')
table.append(f'Caught: {det} of {len([r for r in rows if "caught" in r or "missed" in r])} swept changes.')
s=open(V+'/DESIGN.md').read()
a=s.index('SEEDED-TABLE-BEGIN'); b=s.index('SEEDED-TABLE-END')
s=s[:a]+'SEEDED-TABLE-BEGIN\n\n'+'\n'.join(table)+'\n\n'+s[b:]
# 7.3 table: | Cnn | fn | obl | ...
def repl(m):
    pid=m.group(1)
    try: ev=json.load(open(f'{V}/evidence/{pid}.json'))
    except Exception: return m.group(0)
    cov=ev.get('coverage',{})
    fn=len(cov.get('functions_under_contract',[]))
    ob=cov.get('discharged')
    if cov.get('bounded'): ob=f"{ob} (+{len(cov['bounded'])} bounded)"
    return f'| {pid} | {fn} | {ob} |'
# only the table of section 7.3 (rows "| Cnn | fn | obl | ...")
a=s.index('### 7.3 The twenty checks'); b=s.index('### 7.4 ')
s=s[:a]+re.sub(r'^\| (C\d\d) \| [^|]* \| [^|]* \|',repl,s[a:b],flags=re.M)+s[b:]
open(V+'/DESIGN.md','w').write(s)
print('caught',det,'of',len(rows))

#!/bin/bash
# Confirms each seeded mutant in a scratch worktree: builds, suite passes with patch, demo fails with patch, demo passes without.
# usage: confirm_mutants.sh <out.tsv> [ids...]
export GOFLAGS=-mod=mod GOPROXY=off GOSUMDB=off GOTOOLCHAIN=local
out="$1"; shift
ids="$@"
[ -z "$ids" ] && ids=$(ls /tmp/wt/*-out/*.patch.diff | sed 's#.*/##; s#.patch.diff##')
WT=/tmp/wt/confirm
git -C /repo worktree remove --force $WT 2>/dev/null
for id in $ids; do
  pid=${id%?}
  dir=/tmp/wt/$pid-out
  patch=$dir/$id.patch.diff
  meta=$dir/$id.meta.json
  demo=$(ls $dir/${id}_demo_test.go 2>/dev/null)
  place=$(python3 -c "import json;print(json.load(open('$meta')).get('demo_place_at',''))")
  [ -z "$demo" ] && { echo -e "$id\tno-demo" >> $out; continue; }
  base=HEAD
  git -C /repo worktree add -q --detach $WT HEAD
  if ! git -C $WT apply --check $patch 2>/dev/null; then
    git -C /repo worktree remove --force $WT; base=6c24eec
    git -C /repo worktree add -q --detach $WT 6c24eec
  fi
  case "$place" in *.go) dest=$WT/$place;; *) dest=$WT/$place/zz_${id}_demo_test.go;; esac
  pkgdir=$(dirname ${dest#$WT/})
  run=$(grep -o "Test${id}_[A-Za-z0-9_]*\|Test${id}[A-Za-z0-9_]*" $demo | head -1 | sed 's/_.*//' )
  cp $demo $dest
  # without patch
  (cd $WT && timeout 300 go test -vet=off -count=1 -timeout 200s -run "Test${id}" ./$pkgdir/ > /tmp/wt/confirm_$id.nopatch.log 2>&1); rc0=$?
  git -C $WT apply $patch; ap=$?
  (cd $WT && go build ./... > /tmp/wt/confirm_$id.build.log 2>&1); rcb=$?
  (cd $WT && timeout 300 go test -vet=off -count=1 -timeout 200s -run "Test${id}" ./$pkgdir/ > /tmp/wt/confirm_$id.patch.log 2>&1); rc1=$?
  rm -f $dest
  (cd $WT && timeout 600 go test -vet=off -count=1 -timeout 25m ./... > /tmp/wt/confirm_$id.suite.log 2>&1); rcs=$?
  echo -e "$id\tbase=$base\tapply=$ap\tbuild=$rcb\tsuite=$rcs\tdemo_nopatch=$rc0\tdemo_patch=$rc1" >> $out
  git -C /repo worktree remove --force $WT
done
echo DONE >> $out

#!/bin/bash
# usage: tools/selftest.sh <Cnn> — must-fail corpus of one property: every seeded change whose meta.json says
# "detected": true must still make the quick check report a violation (run in a scratch worktree of /repo's HEAD).
p="$1"
ids=$(python3 - "$p" <<'PY'
import json,glob,sys
for f in sorted(glob.glob('/verif/seeded/*/meta.json')):
    m=json.load(open(f))
    if m.get('property')==sys.argv[1] and m.get('detected') is True:
        print(f.split('/')[-2])
PY
)
[ -z "$ids" ] && { echo "SELFTEST $p: no seeded change recorded as detected"; exit 0; }
WT=$(mktemp -d /tmp/govc-selftest.XXXX); OUT=$(mktemp -d /tmp/govc-selftest-out.XXXX); rmdir $WT
git -C /repo worktree add -q --detach $WT HEAD || exit 2
bad=0; n=0
for id in $ids; do
  n=$((n+1))
  git -C $WT apply /verif/seeded/$id/patch.diff 2>/dev/null || { echo "SELFTEST $p: seeded change $id does not apply to HEAD any more (rebase it)"; bad=$((bad+1)); continue; }
  v=$(cd /verif && GOVC_REPO=$WT GOVC_OUT=$OUT /verif/bin/govc check $p --tier quick 2>&1 | grep -c '^VIOLATION')
  if [ "$v" -eq 0 ]; then echo "SELFTEST $p: seeded change $id is NO LONGER DETECTED"; bad=$((bad+1)); fi
  git -C $WT checkout -q -- . ; git -C $WT clean -fdq
done
git -C /repo worktree remove --force $WT; rm -rf $OUT
echo "SELFTEST $p: $((n-bad)) of $n seeded changes recorded as detected are detected"
[ $bad -eq 0 ]

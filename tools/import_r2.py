#!/usr/bin/env python3
"""import_r2.py <confirm.tsv> [round]: copies confirmed changes of round r2 (default) / r3 from /tmp/wt/<round>-<Cnn>-out into /verif/seeded/<id>/."""
import sys,json,os,shutil
rnd=sys.argv[2] if len(sys.argv)>2 else 'r2'
prev={'r2':'two round-1 changes','r3':'four earlier changes','r4':'six earlier changes'}[rnd]
for line in open(sys.argv[1]):
    f=line.strip().split('\t')
    if len(f)<7: continue
    id=f[0]; kv=dict(x.split('=') for x in f[1:])
    ok = kv['apply']=='0' and kv['build']=='0' and kv['suite']=='0' and kv['demo_nopatch']=='0' and kv['demo_patch']!='0'
    pid=id[:-1]; src=f'/tmp/wt/{rnd}-{pid}-out'
    if not ok:
        print('NOT CONFIRMED',line.strip()); continue
    dst=f'/verif/seeded/{id}'; os.makedirs(dst,exist_ok=True)
    shutil.copy(f'{src}/{id}.patch.diff',f'{dst}/patch.diff')
    shutil.copy(f'{src}/{id}_demo_test.go',f'{dst}/demo_test.go')
    m=json.load(open(f'{src}/{id}.meta.json'))
    m['id']=id
    m['origin']='written by an independent sub-agent (round '+rnd[1]+') that was given only the property text, the summaries of the '+prev+' to avoid, and a scratch worktree without the contract files'
    m['confirmed_by_me']={'how':'tools/confirm_r2.sh in a scratch worktree of /repo (removed afterwards): go build ./..., full suite with the patch, demonstration with and without the patch',
      'worktree_base':kv['base'],'suite_with_patch':'pass','demo_without_patch':'pass','demo_with_patch':'fail'}
    json.dump(m,open(f'{dst}/meta.json','w'),indent=1)
    print('imported',id)

#!/bin/bash
# Must-pass corpus: behaviour-preserving refactorings (benign/*.patch.diff, written by independent sub-agents) must not
# make any check raise an alarm. Applies each in a scratch worktree and runs the union of all functions under contract
# (pseudo-property ALLX, locked on the unchanged tree) against it.
ids="$@"; [ -z "$ids" ] && ids=$(ls /verif/benign/*.patch.diff | sed 's#.*/##; s#.patch.diff##')
WT=$(mktemp -d /tmp/govc-benign.XXXX); OUT=$(mktemp -d /tmp/govc-benign-out.XXXX); rmdir $WT
git -C /repo worktree add -q --detach $WT HEAD || exit 2
for id in $ids; do
  if ! git -C $WT apply /verif/benign/$id.patch.diff 2>/dev/null; then echo "$id patch-does-not-apply"; continue; fi
  out=$(cd /verif && GOVC_REPO=$WT GOVC_OUT=$OUT /verif/bin/govc check ALLX --tier quick 2>&1)
  v=$(echo "$out" | grep -c '^VIOLATION')
  echo "$id false-alarms=$v $(echo "$out" | grep 'obligation:' | head -3 | tr '\n' ' ' | cut -c1-300)"
  git -C $WT checkout -q -- . ; git -C $WT clean -fdq
done
git -C /repo worktree remove --force $WT; rm -rf $OUT

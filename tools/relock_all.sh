#!/bin/sh
# Re-generate the lock for every configured property on the (clean) tree, then run every check once more
# so that the evidence files on disk come from clean runs. Refuses to run on a dirty /repo.
cd /repo && git diff --quiet || { echo "repo dirty"; exit 2; }
cd /verif
props=$(python3 -c "import json;print(' '.join(sorted(json.load(open('specs/properties.json')))))")
for p in $props; do ./check $p --update-lock > /dev/null 2>&1; done
rc=0
for p in $props; do ./check $p 2>&1 | tail -1; done

#!/bin/bash
# Demonstration of finding F26 against the real code: forces the schedule "stop request arrives right after the restart
# back-off timer fired" by running the test against a copy of src/app/process.go in which a 700 ms sleep is inserted at
# that point (go test -overlay; /repo is not modified). usage: demo_f26.sh [repo-dir]
export GOFLAGS=-mod=mod GOPROXY=off GOSUMDB=off GOTOOLCHAIN=local
R=${1:-/repo}; T=$(mktemp -d /tmp/f26.XXXX)
python3 - "$R" "$T" <<'PY'
import sys,json
R,T=sys.argv[1],sys.argv[2]
s=open(R+'/src/app/process.go').read()
mark='\t\tcase <-time.After(p.getBackoff()):\n'
assert s.count(mark)==1, "back-off select not found"
s=s.replace(mark, mark+'\t\t\ttime.Sleep(700 * time.Millisecond) // demo_f26: widened window\n')
open(T+'/process.go','w').write(s)
open(T+'/zz_f26_test.go','w').write(open('/verif/findings/F26_stop_at_end_of_backoff_is_lost_test.go.txt').read())
json.dump({"Replace":{R+'/src/app/process.go':T+'/process.go', R+'/src/app/zz_f26_test.go':T+'/zz_f26_test.go'}},open(T+'/ov.json','w'))
PY
(cd $R && go test -overlay $T/ov.json -vet=off -count=1 -timeout 120s -run TestF26 ./src/app/ 2>&1 | grep -v '^{' | tail -8); rc=${PIPESTATUS[0]}
rm -rf $T; exit $rc

package main

// Calls: builtins, modular application of contracts, default contracts, returns.

import (
	"fmt"
	"go/token"
	"go/types"
	"os"
	"sort"
	"strings"

	"golang.org/x/tools/go/ssa"
)

type retSite struct {
	guard   string
	heap    *Heap
	results []string
	pos     token.Pos
}

var retSites = map[*Gen][]retSite{}

func (g *Gen) call(x *ssa.Call, c *ssa.CallCommon, h *Heap, guard string) *Heap {
	var args []string
	for _, a := range c.Args {
		args = append(args, g.val(a))
	}
	recv := ""
	if _, isB := c.Value.(*ssa.Builtin); !isB {
		recv = g.val(c.Value)
	}
	h2, results := g.applyCall(c, args, recv, h, guard, x.Pos())
	nres := c.Signature().Results().Len()
	switch {
	case nres == 0:
	case nres == 1:
		if len(results) == 1 {
			sym := g.defVal(x, results[0])
			g.refAssume(x.Type(), sym, h2, guard)
		} else {
			g.freshVal(x)
		}
	default:
		if len(results) != nres {
			results = nil
			for i := 0; i < nres; i++ {
				results = append(results, g.vc.Fresh("res", sortOf(c.Signature().Results().At(i).Type())))
			}
		}
		g.tuples[x] = results
		for i, r := range results {
			g.refAssume(c.Signature().Results().At(i).Type(), r, h2, guard)
		}
	}
	if b, ok := c.Value.(*ssa.Builtin); ok && nres == 0 {
		_ = b
	}
	return h2
}

func (g *Gen) callCommon(x *ssa.Call, c *ssa.CallCommon, args []string, recv string, h *Heap, guard string, pos token.Pos) *Heap {
	h2, _ := g.applyCall(c, args, recv, h, guard, pos)
	return h2
}

func (g *Gen) goStmt(x *ssa.Go, h *Heap, guard string) *Heap {
	// A spawned goroutine runs concurrently: the spawner learns nothing and (sequential view) sees no effect.
	// Preconditions of a contracted callee are still obligations of the spawner.
	c := &x.Call
	var args []string
	for _, a := range c.Args {
		args = append(args, g.val(a))
	}
	tgt := g.resolveCallee(c)
	if tgt.contract != nil {
		// locksets are per goroutine: the spawned goroutine starts holding nothing
		hGo := h
		if _, ok := g.specs.Ghosts["held"]; ok {
			hGo = h.Set("G.held", ArrSort(SInt, SBool), "((as const (Array Int Bool)) false)")
		}
		env := g.calleeEnv(tgt, c, args, g.val(c.Value), hGo, hGo)
		ord := g.ordinal("go:" + tgt.key)
		for i, r := range tgt.contract.Requires {
			t, err := env.EvalBool(r.E)
			if err != nil {
				g.errorf("%s: %v", r.Line, err)
				continue
			}
			label := r.Name
			if label == "" {
				label = fmt.Sprint(i + 1)
			}
			g.vc.Assert(fmt.Sprintf("%s#pre:go:%s:%s@%d", funcKey(g.fn), shortKey(tgt.key), label, ord), "pre", guard, t, g.pos(x.Pos()), r.Text)
		}
		// ghost effect of spawning, if the contract declares one (e.g. "a consumer of this channel is now running")
		for _, sd := range tgt.contract.SpawnSets {
			envS := g.calleeEnv(tgt, c, args, g.val(c.Value), h, h)
			v, err := envS.EvalVal(sd.E)
			if err != nil {
				g.errorf("%s: spawnsets: %v", sd.Line, err)
				continue
			}
			cells, err := g.designatorCells(sd.Target, envS)
			if err != nil || len(cells) != 1 {
				g.errorf("%s: spawnsets target: %v", sd.Line, err)
				continue
			}
			cl := cells[0]
			cur := h.Get(cl.varName, cl.sort)
			if len(cl.addrs) == 0 {
				h = h.Set(cl.varName, cl.sort, v.T)
			} else {
				h = h.Set(cl.varName, cl.sort, nestedStore(cur, cl.addrs, v.T))
			}
		}
	}
	if ev, ok := g.specs.Defines["onSpawn"]; ok && tgt.key != "" {
		_ = ev
	}
	g.vc.abstract("go statement: effects of the spawned goroutine are not visible to the spawner (thread-modular view)")
	// ghost: record the spawn so that contracts can speak about it
	if gd, ok := g.specs.Ghosts["spawned"]; ok && len(gd.Params) == 1 && tgt.key != "" {
		tag := g.fnTag(tgt.key)
		srt := ArrSort(SInt, SInt)
		cur := h.Get("G.spawned", srt)
		h = h.Set("G.spawned", srt, Sto(cur, tag, App("+", Sel(cur, tag), "1")))
	}
	return h
}

func (g *Gen) fnTag(key string) string {
	sym := "fntag." + mangle(key)
	if !g.vc.declSet[sym] {
		g.vc.Declare(sym, nil, SInt)
		g.vc.fresh++
		g.vc.Def(Eq(sym, IntLit(int64(5000+g.vc.fresh))))
	}
	return sym
}

func shortKey(k string) string { return k }

type callTarget struct {
	key      string
	fn       *ssa.Function // may be nil (interface method, unknown)
	contract *Contract
	bindings []string // closure bindings (terms) in FreeVars order, if known
	closure  string   // closure value term for dynamic calls with ParamSpecs
	sig      *types.Signature
	invoke   bool
	pkg      *types.Package
	dynamic  bool
}

func (g *Gen) resolveCallee(c *ssa.CallCommon) callTarget {
	if c.IsInvoke() {
		rt := c.Value.Type()
		key := "(" + canonKey(rt.String()) + ")." + c.Method.Name()
		t := callTarget{key: key, invoke: true, sig: c.Method.Type().(*types.Signature), pkg: c.Method.Pkg()}
		t.contract = g.specs.Contracts[key]
		return t
	}
	if fn := c.StaticCallee(); fn != nil {
		key := funcKey(fn)
		t := callTarget{key: key, fn: fn, sig: fn.Signature}
		if fn.Pkg != nil {
			t.pkg = fn.Pkg.Pkg
		} else if fn.Object() != nil {
			t.pkg = fn.Object().Pkg()
		}
		t.contract = g.lookupContract(fn)
		if mc, ok := c.Value.(*ssa.MakeClosure); ok {
			for _, b := range mc.Bindings {
				t.bindings = append(t.bindings, g.val(b))
			}
		}
		return t
	}
	// dynamic function value
	name := dynCalleeName(c)
	t := callTarget{dynamic: true, sig: c.Signature()}
	if key, ok := g.contract.ParamSpecs[name]; ok && name != "" {
		t.key = key
		t.fn = g.w.funcs[key]
		t.contract = g.specs.Contracts[key]
		if t.fn != nil {
			t.sig = t.fn.Signature
			if t.fn.Pkg != nil {
				t.pkg = t.fn.Pkg.Pkg
			}
			if t.contract == nil {
				t.contract = g.lookupContract(t.fn)
			}
			t.closure = g.val(c.Value)
		}
	}
	return t
}

// dynCalleeName: the source-level name (parameter, captured variable, field or local) of a called function value.
func dynCalleeName(c *ssa.CallCommon) string {
	name := ""
	switch v := c.Value.(type) {
	case *ssa.Parameter:
		name = v.Name()
	case *ssa.FreeVar:
		name = v.Name()
	case *ssa.UnOp:
		if fv, ok := v.X.(*ssa.FreeVar); ok {
			name = fv.Name()
		}
		if a, ok := v.X.(*ssa.Alloc); ok {
			name = a.Comment
		}
		if fa, ok := v.X.(*ssa.FieldAddr); ok {
			st, _, _ := structOf(fa.X.Type())
			name = st.Field(fa.Field).Name()
		}
	}
	if name == "" && c.Value.Referrers() != nil {
		for _, ref := range *c.Value.Referrers() {
			if d, ok := ref.(*ssa.DebugRef); ok && d.Object() != nil {
				name = d.Object().Name()
				break
			}
		}
	}
	return name
}

func (g *Gen) lookupContract(fn *ssa.Function) *Contract {
	key := funcKey(fn)
	if c, ok := g.specs.Contracts[key]; ok {
		return c
	}
	// generic instantiation: try the origin
	if o := fn.Origin(); o != nil && o != fn {
		if c, ok := g.specs.Contracts[funcKey(o)]; ok {
			return c
		}
	}
	return nil
}

func (w *World) pkgRule(fn *ssa.Function) string {
	var path string
	if fn.Pkg != nil {
		path = fn.Pkg.Pkg.Path()
	} else if fn.Object() != nil && fn.Object().Pkg() != nil {
		path = fn.Object().Pkg().Path()
	} else if o := fn.Origin(); o != nil && o.Pkg != nil {
		path = o.Pkg.Pkg.Path()
	}
	best := ""
	rule := ""
	for _, r := range w.specs.PkgRules {
		if (path == r.Path || strings.HasPrefix(path, r.Path+"/")) && len(r.Path) > len(best) {
			best, rule = r.Path, r.Rule
		}
	}
	return rule
}

func (w *World) pkgRulePath(path string) string {
	best := ""
	rule := ""
	for _, r := range w.specs.PkgRules {
		if (path == r.Path || strings.HasPrefix(path, r.Path+"/")) && len(r.Path) > len(best) {
			best, rule = r.Path, r.Rule
		}
	}
	return rule
}

// calleeEnv binds the callee's parameter names to argument terms.
func (g *Gen) calleeEnv(t callTarget, c *ssa.CallCommon, args []string, recv string, pre, post *Heap) *Env {
	env := &Env{g: g, pkg: t.pkg, vars: map[string]Val{}, now: post, old: pre}
	sig := t.sig
	if t.invoke {
		env.vars["recv"] = Val{T: recv, Ty: c.Value.Type()}
		for i := 0; i < sig.Params().Len() && i < len(args); i++ {
			p := sig.Params().At(i)
			v := Val{T: args[i], Ty: p.Type()}
			if p.Name() != "" && p.Name() != "_" {
				env.vars[p.Name()] = v
			}
			env.vars[fmt.Sprintf("arg%d", i)] = v
		}
		return env
	}
	if t.fn != nil {
		hasRecv := t.fn.Signature.Recv() != nil
		for i, p := range t.fn.Params {
			if i >= len(args) {
				break
			}
			v := Val{T: args[i], Ty: p.Type()}
			if p.Name() != "" && p.Name() != "_" {
				env.vars[p.Name()] = v
			}
			idx := i
			if hasRecv {
				idx = i - 1
				if i == 0 {
					env.vars["recv"] = v
				}
			}
			if idx >= 0 {
				env.vars[fmt.Sprintf("arg%d", idx)] = v
			}
		}
		if base := baselineParams[t.key]; len(base) == len(t.fn.Params) {
			for i, p := range t.fn.Params {
				if i < len(args) && base[i] != "" && base[i] != "_" && base[i] != p.Name() {
					if _, taken := env.vars[base[i]]; !taken {
						env.vars[base[i]] = Val{T: args[i], Ty: p.Type()}
					}
				}
			}
		}
		// captured variables of a closure callee
		fvs := t.fn.FreeVars
		if len(fvs) > 0 {
			binds := t.bindings
			if binds == nil && t.closure != "" {
				for _, fv := range fvs {
					binds = append(binds, g.closBind(t.key, fv.Name(), t.closure))
				}
			}
			if binds != nil {
				env.locals = func(name string) (Val, bool) {
					for i, fv := range fvs {
						if fv.Name() == name && i < len(binds) {
							pt := fv.Type().Underlying().(*types.Pointer).Elem()
							if isStruct(pt) {
								return Val{T: binds[i], Ty: pt, Addr: true}, true
							}
							arr := env.now.Get(cellVar(pt), ArrSort(SInt, sortOf(pt)))
							return Val{T: Sel(arr, binds[i]), Ty: pt}, true
						}
					}
					return Val{}, false
				}
			}
		}
		return env
	}
	for i := 0; i < sig.Params().Len() && i < len(args); i++ {
		p := sig.Params().At(i)
		v := Val{T: args[i], Ty: p.Type()}
		if p.Name() != "" && p.Name() != "_" {
			env.vars[p.Name()] = v
		}
		env.vars[fmt.Sprintf("arg%d", i)] = v
	}
	if t.dynamic && recv != "" {
		env.vars["self"] = Val{T: recv, Ty: tRef}
	}
	return env
}

func (g *Gen) closBind(key, name, clos string) string {
	fn := "closbind." + mangle(key) + "." + mangle(name)
	g.vc.Declare(fn, []Sort{SInt}, SInt)
	return App(fn, clos)
}

// applyCall performs a call and returns the post heap and result terms.
func (g *Gen) applyCall(c *ssa.CallCommon, args []string, recv string, h *Heap, guard string, pos token.Pos) (*Heap, []string) {
	if b, ok := c.Value.(*ssa.Builtin); ok {
		return g.builtin(b, c, args, h, guard, pos)
	}
	t := g.resolveCallee(c)
	sig := t.sig
	nres := sig.Results().Len()
	fresh := func() []string {
		var rs []string
		for i := 0; i < nres; i++ {
			rs = append(rs, g.vc.Fresh("res."+mangle(lastSeg(t.key)), sortOf(sig.Results().At(i).Type())))
		}
		return rs
	}
	if t.contract != nil {
		t.contract.Used = true
		return g.applyContract(t, c, args, recv, h, guard, pos)
	}
	// no explicit contract: a small, loop-free, non-recursive repository function is verified through its body (inlined),
	// so that extracting such a helper out of a function under contract changes nothing
	if t.fn != nil && len(t.fn.Blocks) > 0 && g.w.isRepoFunc(t.fn) && g.inlinable(t.fn) {
		return g.inlineCall(t, c, args, h, guard)
	}
	if t.fn != nil && len(t.fn.Blocks) > 0 && g.w.isRepoFunc(t.fn) {
		ws := g.w.writeSet(t.fn, g)
		g.vc.abstract(fmt.Sprintf("default contract for %s (frame = syntactic write set, ensures true)", t.key))
		var h2 *Heap
		if ws.All {
			h2 = g.havocAll(h, guard, "call to "+t.key+" ("+ws.Why+")")
		} else {
			h2 = g.havocVarsMono(h, ws, guard)
		}
		return h2, fresh()
	}
	rule := ""
	if t.fn != nil {
		rule = g.w.pkgRule(t.fn)
	} else if t.pkg != nil {
		rule = g.w.pkgRulePath(t.pkg.Path())
	}
	switch rule {
	case "pure":
		// deterministic function of its arguments, no effects
		var rs []string
		var sorts []Sort
		for _, a := range c.Args {
			sorts = append(sorts, sortOf(a.Type()))
		}
		for i := 0; i < nres; i++ {
			fn := fmt.Sprintf("U.%s.%d", mangle(t.key), i)
			if nres == 1 {
				fn = "U." + mangle(t.key)
			}
			allArgs := args
			allSorts := sorts
			if t.invoke {
				allArgs = append([]string{recv}, args...)
				allSorts = append([]Sort{SInt}, sorts...)
			}
			g.vc.Declare(fn, allSorts, sortOf(sig.Results().At(i).Type()))
			rs = append(rs, App(fn, allArgs...))
		}
		return h, rs
	case "noeffect":
		return h, fresh()
	}
	why := "call to function value"
	if t.key != "" {
		why = "call to " + t.key + " (no contract, no package rule)"
	}
	return g.havocAll(h, guard, why), fresh()
}

func btoi(b bool) int {
	if b {
		return 1
	}
	return 0
}

func lastSeg(k string) string {
	if i := strings.LastIndexAny(k, ".)"); i >= 0 && i+1 < len(k) {
		return k[i+1:]
	}
	return k
}

// havocAcquires: a callee that may take locks increases lock-acquisition counters by unknown amounts.
func (g *Gen) havocAcquires(h *Heap, guard string, recvs bool) *Heap {
	if _, ok := g.specs.Ghosts["acquires"]; !ok {
		return h
	}
	srt := ArrSort(SInt, SInt)
	a := h.Get("G.acquires", srt)
	h2 := h.HavocVars([]string{"G.acquires"})
	b := h2.Get("G.acquires", srt)
	g.vc.AssumeAt(guard, fmt.Sprintf("(forall ((m Int)) (! (>= (select %s m) (select %s m)) :pattern ((select %s m))))", b, a, b), "lock acquisition counters only grow")
	if _, ok := g.specs.Ghosts["slept"]; ok && recvs {
		s0 := h2.Get("G.slept", SInt)
		h2 = h2.HavocVars([]string{"G.slept", "G.lastWait"})
		g.vc.AssumeAt(guard, App(">=", h2.Get("G.slept", SInt), s0), "accumulated timer waits only grow")
	}
	return h2
}

func (g *Gen) havocVarsMono(h *Heap, ws *WriteSet, guard string) *Heap {
	var names []string
	for n, s := range ws.Vars {
		g.vc.noteHeapVar(n, s)
		names = append(names, n)
	}
	sort.Strings(names)
	names = append(names, allocVar)
	h2 := h.HavocVars(names)
	g.vc.AssumeAt(guard, App(">=", g.model.allocNow(h2), g.model.allocNow(h)), "allocation counter is monotone")
	g.assumeMonotone(h, h2, guard, names)
	g.assumeFreshOnly(h, h2, guard, ws)
	if ws.Yields {
		h2 = g.havocAcquires(h2, guard, ws.Recvs)
	}
	return h2
}

// applyContract: assert requires, havoc the frame, assume ensures.
func (g *Gen) applyContract(t callTarget, c *ssa.CallCommon, args []string, recv string, h *Heap, guard string, pos token.Pos) (*Heap, []string) {
	ct := t.contract
	sig := t.sig
	pre := h
	preAssumes := len(g.vc.assumes)
	envPre := g.calleeEnv(t, c, args, recv, pre, pre)
	for _, l := range ct.Lets {
		v, err := envPre.EvalVal(l.E)
		if err != nil {
			g.errorf("%s: let %s at call: %v", ct.File, l.Name, err)
			continue
		}
		envPre.vars[l.Name] = v
	}
	ord := g.ordinal("call:" + t.key)
	for i, r := range ct.Requires {
		tm, err := envPre.EvalBool(r.E)
		if err != nil {
			g.errorf("%s: requires at call from %s: %v", r.Line, funcKey(g.fn), err)
			continue
		}
		label := r.Name
		if label == "" {
			label = fmt.Sprint(i + 1)
		}
		g.vc.Assert(fmt.Sprintf("%s#pre:%s:%s@%d", funcKey(g.fn), t.key, label, ord), "pre", guard, tm, g.pos(pos), r.Text)
		g.vc.AssumeAt(guard, tm, "")
	}
	// interference before a blocking callee
	yields := ct.Flags["yields"] != ""
	if !yields && t.fn != nil && len(t.fn.Blocks) > 0 && g.w.isRepoFunc(t.fn) {
		yields = g.w.writeSet(t.fn, nil).Yields
	}
	if yields {
		h = g.interference(h, guard, "call to "+t.key)
		pre = h
		envPre.now, envPre.old = pre, pre
	}
	// frame
	post := h
	pureLike := ct.Flags["pure"] != "" || ct.Flags["noeffect"] != ""
	switch {
	case ct.HasAssigns:
		var err error
		post, err = g.havocDesignators(h, ct.allAssigns(), envPre, guard)
		if err != nil {
			g.errorf("%s: assigns of %s: %v", ct.File, t.key, err)
		}
	case pureLike:
	case t.fn != nil && len(t.fn.Blocks) > 0 && g.w.isRepoFunc(t.fn):
		ws := g.w.writeSet(t.fn, g)
		if ws.All {
			post = g.havocAll(h, guard, "call to "+t.key+" ("+ws.Why+")")
		} else {
			post = g.havocVarsMono(h, ws, guard)
		}
	default:
		// extern with a contract but without assigns: assigns nothing
	}
	// writes_args: an external decoder fills the object its (boxed) pointer argument designates
	if ct.Flags["writes_args"] != "" {
		for _, a := range c.Args {
			v := a
			if mi, ok := v.(*ssa.MakeInterface); ok {
				v = mi.X
			}
			pt, ok := v.Type().Underlying().(*types.Pointer)
			if !ok {
				continue
			}
			addr := g.val(v)
			var cells []cellTarget
			if isStruct(pt.Elem()) {
				cells = g.structCells(pt.Elem(), addr)
			} else {
				cells = []cellTarget{{varName: cellVar(pt.Elem()), sort: ArrSort(SInt, sortOf(pt.Elem())), addrs: []string{addr}}}
			}
			for _, cl := range cells {
				cur := post.Get(cl.varName, cl.sort)
				nv := g.vc.Fresh("decoded."+cl.varName, elemSortOfArr(cl.sort, 1))
				post = post.Set(cl.varName, cl.sort, Sto(cur, cl.addrs[0], nv))
			}
		}
	}
	// callback invariants: asserted here, assumed after the call (the callee's own frame is disjoint from them
	// by its assigns clause; every invocation of the callback preserves them by the callback's own contract)
	var cbInv []*Clause
	var cbKey string
	if pn := ct.Flags["frame_of_param"]; pn != "" && t.fn != nil {
		for i, prm := range t.fn.Params {
			if prm.Name() == pn && i < len(c.Args) {
				if mc, ok := unwrapClosure(c.Args[i]); ok {
					if cf, ok := mc.Fn.(*ssa.Function); ok {
						if cc := g.specs.Contracts[funcKey(cf)]; cc != nil {
							cbInv, cbKey = cc.Preserves, funcKey(cf)
							cc.Used = true
						}
					}
				}
			}
		}
	}
	for _, inv := range cbInv {
		tm, err := g.envAt(h, g.blockCur).EvalBool(inv.E)
		if err != nil {
			g.errorf("%s: callback invariant at call from %s: %v", inv.Line, funcKey(g.fn), err)
			continue
		}
		g.vc.Assert(fmt.Sprintf("%s#pre:callback:%s:%s@%d", funcKey(g.fn), cbKey, inv.Name, ord), "pre", guard, tm, g.pos(pos), inv.Text)
	}
	// frame_of_param=<name>: the callee invokes the function value passed for that parameter; its effects are
	// those of the closure given at this call site (write set of the closure's body), added to the declared frame
	if pn := ct.Flags["frame_of_param"]; pn != "" && t.fn != nil {
		hasRecv := t.fn.Signature.Recv() != nil
		for i, prm := range t.fn.Params {
			if prm.Name() != pn || i >= len(c.Args)+btoi(hasRecv && c.IsInvoke()) {
				continue
			}
			ai := i
			if ai >= len(c.Args) {
				break
			}
			if mc, ok := unwrapClosure(c.Args[ai]); ok {
				if cf, ok := mc.Fn.(*ssa.Function); ok {
					// a callback with a declared frame made of map entries of captured maps: those maps' rows are havocked
					if cc := g.specs.Contracts[funcKey(cf)]; cc != nil && cc.HasAssigns {
						if p2, ok := g.havocCallbackFrame(post, cc, guard); ok {
							post = p2
							g.vc.abstract(fmt.Sprintf("callback %s passed to %s: its declared frame (whole rows of the designated maps) is added to the callee's frame", funcKey(cf), t.key))
							break
						}
					}
					ws := g.w.writeSet(cf, g)
					if ws.All {
						post = g.havocAll(post, guard, "callback "+funcKey(cf)+" passed to "+t.key+" ("+ws.Why+")")
					} else {
						post = g.havocVarsMono(post, ws, guard)
					}
					g.vc.abstract(fmt.Sprintf("callback %s passed to %s: its syntactic write set is added to the callee's frame", funcKey(cf), t.key))
					break
				}
			}
			post = g.havocAll(post, guard, "function value passed to "+t.key+" is not a closure literal")
		}
	}
	if yields {
		mentions := false
		for _, d := range ct.allAssigns() {
			if strings.HasPrefix(strings.TrimSpace(d), "acquires") || strings.HasPrefix(strings.TrimSpace(d), "lastWait") {
				mentions = true
			}
		}
		if !mentions {
			recvs := t.fn != nil && len(t.fn.Blocks) > 0 && g.w.isRepoFunc(t.fn) && g.w.writeSet(t.fn, nil).Recvs
			post = g.havocAcquires(post, guard, recvs)
		}
	}
	if !pureLike {
		a0 := g.model.allocNow(post)
		post = post.HavocVars([]string{allocVar})
		g.vc.AssumeAt(guard, App(">=", g.model.allocNow(post), a0), "allocation counter is monotone")
	}
	for _, inv := range cbInv {
		tm, err := g.envAt(post, g.blockCur).EvalBool(inv.E)
		if err == nil {
			g.vc.AssumeAt(guard, tm, "callback invariant of "+cbKey+" carried across "+t.key+": "+inv.Text)
		}
	}
	// results
	var results []string
	envPost := g.calleeEnv(t, c, args, recv, pre, post)
	for k, v := range envPre.vars {
		if _, ok := envPost.vars[k]; !ok {
			envPost.vars[k] = v
		}
	}
	nres := sig.Results().Len()
	for i := 0; i < nres; i++ {
		rt := sig.Results().At(i).Type()
		var sym string
		if ct.Flags["pure"] != "" {
			var sorts []Sort
			allArgs := args
			for _, a := range c.Args {
				sorts = append(sorts, sortOf(a.Type()))
			}
			if t.invoke {
				allArgs = append([]string{recv}, args...)
				sorts = append([]Sort{SInt}, sorts...)
			}
			fn := fmt.Sprintf("U.%s.%d", mangle(t.key), i)
			g.vc.Declare(fn, sorts, sortOf(rt))
			sym = App(fn, allArgs...)
		} else {
			sym = g.vc.Fresh("res."+mangle(lastSeg(t.key)), sortOf(rt))
		}
		results = append(results, sym)
		v := Val{T: sym, Ty: rt}
		envPost.vars[fmt.Sprintf("result%d", i)] = v
		if i == 0 {
			envPost.vars["result"] = v
		}
		if n := sig.Results().At(i).Name(); n != "" && n != "_" {
			envPost.vars[n] = v
		}
	}
	for _, e := range ct.Ensures {
		tm, err := envPost.EvalBool(e.E)
		if err != nil {
			g.errorf("%s: ensures at call from %s: %v", e.Line, funcKey(g.fn), err)
			continue
		}
		g.vc.AssumeAt(guard, tm, "ensures of "+t.key+": "+e.Text)
	}
	// ghost updates of the callee (`sets`) are facts about the post-state
	for _, sd := range ct.Sets {
		envSet := *envPost
		envSet.now = pre
		v, err := envSet.EvalVal(sd.E)
		if err != nil {
			g.errorf("%s: sets at call from %s: %v", sd.Line, funcKey(g.fn), err)
			continue
		}
		cells, err := g.designatorCells(sd.Target, envPre)
		if err != nil || len(cells) != 1 {
			g.errorf("%s: sets target at call: %v", sd.Line, err)
			continue
		}
		c := cells[0]
		cur := post.Get(c.varName, c.sort)
		g.vc.AssumeAt(guard, Eq(nestedSelect(cur, c.addrs), v.T), "ghost update of "+t.key+": "+sd.Target)
	}
	// intermediate assertions of the caller's contract: proved here, available afterwards
	for _, k := range []string{t.key, canonKey(originKey(t.fn))} {
		for _, a := range g.contract.After[k] {
			tm, err := g.envAt(post, g.blockCur).EvalBool(a.E)
			if err != nil {
				g.errorf("%s: after %s assert %s: %v", a.Line, k, a.Name, err)
				continue
			}
			g.vc.Assert(fmt.Sprintf("%s#lemma:%s@%d", funcKey(g.fn), a.Name, ord), "lemma", guard, tm, g.pos(pos), a.Text)
			g.vc.AssumeAt(guard, tm, "proved after the call to "+k+": "+a.Text)
		}
		if k == canonKey(originKey(t.fn)) {
			break
		}
	}
	// vacuity guard: the state after the call must be reachable under the assumed contract (unless the callee is
	// declared to end the program for some arguments: `flag mayexit`, e.g. sending a zerolog Fatal event)
	if ct.Flags["mayexit"] != "" {
		return post, results
	}
	g.vc.Covers = append(g.vc.Covers, CoverPoint{Guard: guard, NAssumes: len(g.vc.assumes), PreAssumes: preAssumes, What: "after call to " + t.key + " at " + g.pos(pos)})
	return post, results
}

// splitConj splits A ==> (B && C) into A ==> B, A ==> C (and plain conjunctions into their parts).
func splitConj(e Expr) []Expr {
	if b, ok := e.(*EBin); ok {
		switch b.Op {
		case "&&":
			return append(splitConj(b.L), splitConj(b.R)...)
		case "==>":
			var out []Expr
			for _, r := range splitConj(b.R) {
				out = append(out, &EBin{"==>", b.L, r})
			}
			return out
		}
	}
	return []Expr{e}
}

// doReturn records a return site; obligations are generated once for the joined exit state.
func (g *Gen) doReturn(x *ssa.Return, h *Heap, guard string) {
	var rs []string
	for _, r := range x.Results {
		rs = append(rs, g.val(r))
	}
	retSites[g] = append(retSites[g], retSite{guard, h, rs, x.Pos()})
}

// finishReturns emits ensures and frame obligations over the join of all return sites.
func (g *Gen) finishReturns() {
	sites := retSites[g]
	delete(retSites, g)
	if len(sites) == 0 {
		return
	}
	var edges []heapEdge
	var guards []string
	for _, s := range sites {
		edges = append(edges, heapEdge{s.guard, s.heap})
		guards = append(guards, s.guard)
	}
	exit := g.vc.JoinHeaps(edges)
	guard := Or(guards...)
	sig := g.fn.Signature
	env := g.envAt(exit, nil)
	nres := sig.Results().Len()
	for i := 0; i < nres; i++ {
		rt := sig.Results().At(i).Type()
		var sym string
		if len(sites) == 1 {
			sym = sites[0].results[i]
		} else {
			sym = g.vc.Fresh("ret", sortOf(rt))
			for _, s := range sites {
				g.vc.Def(Imp(s.guard, Eq(sym, s.results[i])))
			}
		}
		v := Val{T: sym, Ty: rt}
		env.vars[fmt.Sprintf("result%d", i)] = v
		if i == 0 {
			env.vars["result"] = v
		}
		if n := sig.Results().At(i).Name(); n != "" && n != "_" {
			env.vars[n] = v
		}
	}
	pos := g.pos(sites[0].pos)
	// ghost updates declared by the contract (`sets`): performed at exit, visible to ensures and frames
	for _, sd := range g.contract.Sets {
		envSet := *env
		envSet.now = g.entry
		v, err := envSet.EvalVal(sd.E)
		if err != nil {
			g.errorf("%s: sets %s: %v", sd.Line, sd.Target, err)
			continue
		}
		pre := g.envAt(exit, nil)
		pre.vars = env.vars
		cells, err := g.designatorCells(sd.Target, pre)
		if err != nil || len(cells) != 1 {
			g.errorf("%s: sets target %s: %v", sd.Line, sd.Target, err)
			continue
		}
		c := cells[0]
		cur := exit.Get(c.varName, c.sort)
		if len(c.addrs) == 0 {
			exit = exit.Set(c.varName, c.sort, v.T)
		} else {
			exit = exit.Set(c.varName, c.sort, nestedStore(cur, c.addrs, v.T))
		}
		env.now = exit
	}
	for i, e := range g.contract.Ensures {
		t, err := env.EvalBool(e.E)
		if err != nil {
			g.errorf("%s: ensures %s: %v", e.Line, e.Name, err)
			continue
		}
		label := e.Name
		if label == "" {
			label = fmt.Sprint(i + 1)
		}
		if os.Getenv("GOVC_SPLIT") != "" {
			// debugging aid: one obligation per conjunct of the consequent
			parts := splitConj(e.E)
			if len(parts) > 1 {
				for k, pe := range parts {
					pt, err := env.EvalBool(pe)
					if err == nil {
						g.vc.Assert(fmt.Sprintf("%s#ensures:%s.%d", funcKey(g.fn), label, k+1), "ensures", guard, pt, pos, exprString(pe))
					}
				}
				continue
			}
		}
		if strings.HasPrefix(label, "assumed") {
			// assumed clause: used by callers, not checked against the body (listed in the evidence)
			g.vc.abstract(fmt.Sprintf("ASSUMED clause %s of %s is not checked against the body: %s", label, funcKey(g.fn), e.Text))
			continue
		}
		g.vc.Assert(fmt.Sprintf("%s#ensures:%s", funcKey(g.fn), label), "ensures", guard, t, pos, e.Text)
	}
	if g.contract.HasAssigns {
		g.frameObligations(exit, guard, pos)
	}
}

// unwrapClosure looks through type conversions (types.ProcessFunc(func...)) for a closure literal.
func unwrapClosure(v ssa.Value) (*ssa.MakeClosure, bool) {
	for {
		switch x := v.(type) {
		case *ssa.MakeClosure:
			return x, true
		case *ssa.ChangeType:
			v = x.X
		default:
			return nil, false
		}
	}
}

func originKey(fn *ssa.Function) string {
	if fn == nil {
		return ""
	}
	if o := fn.Origin(); o != nil {
		return o.String()
	}
	return fn.String()
}

// havocCallbackFrame: the callback's assigns clause consists of entries m[k] of maps m named in the caller's scope
// (captured variables); the key is a callback parameter, so the whole row of each such map is havocked.
func (g *Gen) havocCallbackFrame(h *Heap, cc *Contract, guard string) (*Heap, bool) {
	env := g.envAt(h, g.blockCur)
	for _, d := range cc.allAssigns() {
		e, err := ParseExpr(d)
		if err != nil {
			return nil, false
		}
		ix, ok := e.(*EIndex)
		if !ok {
			return nil, false
		}
		b, err := env.EvalVal(ix.X)
		if err != nil {
			return nil, false
		}
		mt, ok := b.Ty.Underlying().(*types.Map)
		if !ok {
			return nil, false
		}
		ks, vs := sortOf(mt.Key()), sortOf(mt.Elem())
		for _, c := range []cellTarget{
			{varName: mapDomVar(mt), sort: ArrSort(SInt, ArrSort(ks, SBool)), addrs: []string{b.T}},
			{varName: mapValVar(mt), sort: ArrSort(SInt, ArrSort(ks, vs)), addrs: []string{b.T}},
		} {
			cur := h.Get(c.varName, c.sort)
			nv := g.vc.Fresh("cbhavoc."+c.varName, elemSortOfArr(c.sort, 1))
			h = h.Set(c.varName, c.sort, Sto(cur, c.addrs[0], nv))
		}
	}
	return h, true
}

var inlineCounter int

// inlinable: no contract, few blocks, no loops, no goroutines, not on the current inline stack, limited depth.
func (g *Gen) inlinable(fn *ssa.Function) bool {
	if os.Getenv("GOVC_NOINLINE") != "" || g.inlineDepth >= 3 || g.inlineStack[fn] || len(fn.Blocks) > 16 || fn == g.fn {
		return false
	}
	if fn.Recover != nil {
		return false
	}
	for _, b := range fn.Blocks {
		for _, s := range b.Succs {
			if s.Dominates(b) {
				return false // loop
			}
		}
		for _, in := range b.Instrs {
			switch in.(type) {
			case *ssa.Go, *ssa.Select, *ssa.Range:
				return false
			}
		}
	}
	return true
}

// inlineCall generates the callee's body in place: its entry heap is the call-site heap, its entry condition the
// call-site guard; safety and callee-precondition obligations inside it become obligations of the caller.
func (g *Gen) inlineCall(t callTarget, c *ssa.CallCommon, args []string, h *Heap, guard string) (*Heap, []string) {
	fn := t.fn
	inlineCounter++
	stack := map[*ssa.Function]bool{fn: true, g.fn: true}
	for k := range g.inlineStack {
		stack[k] = true
	}
	g2 := &Gen{w: g.w, specs: g.specs, fn: fn, vals: map[ssa.Value]string{}, tuples: map[ssa.Value][]string{},
		reach: map[*ssa.BasicBlock]string{}, outHeap: map[*ssa.BasicBlock]*Heap{}, loops: map[*ssa.BasicBlock]*loopInfo{},
		backEdge: map[[2]int]bool{}, ranges: map[*ssa.Range]*rangeInfo{}, counters: g.counters, closures: map[ssa.Value]*ssa.MakeClosure{},
		globals: g.globals, safety: g.safety, vc: g.vc, model: g.model, entry: g.entry, env0: g.env0,
		contract:    &Contract{Key: funcKey(fn), Loops: map[int]*LoopSpec{}, Flags: map[string]string{}, ParamSpecs: map[string]string{}},
		inlineID:    inlineCounter,
		inlineDepth: g.inlineDepth + 1, inlineStack: stack, startHeap: h, startReach: guard}
	if g.contract.Flags["noguard"] != "" {
		g2.contract.Flags["noguard"] = "true"
	}
	// function-typed fields called inside the helper are bound like in the function it was extracted from
	for k, v := range g.contract.ParamSpecs {
		g2.contract.ParamSpecs[k] = v
	}
	for i, p := range fn.Params {
		if i < len(args) {
			g2.vals[p] = args[i]
		}
	}
	for i, fv := range fn.FreeVars {
		if i < len(t.bindings) {
			g2.vals[fv] = t.bindings[i]
		} else {
			g2.vals[fv] = g.vc.Fresh("fv."+fv.Name(), SInt)
		}
	}
	g.vc.abstract(fmt.Sprintf("%s has no contract: verified through its body (inlined)", funcKey(fn)))
	func() {
		defer func() {
			if r := recover(); r != nil {
				if ee, ok := r.(evalErr); ok {
					g.errorf("inlining %s: %s", funcKey(fn), string(ee))
					return
				}
				panic(r)
			}
		}()
		for _, b := range g2.rpo() {
			g2.blockCur = b
			g2.processBlock(b)
		}
	}()
	g.errors = append(g.errors, g2.errors...)
	sites := retSites[g2]
	delete(retSites, g2)
	nres := fn.Signature.Results().Len()
	fresh := func() []string {
		var rs []string
		for i := 0; i < nres; i++ {
			rs = append(rs, g.vc.Fresh("res."+mangle(lastSeg(t.key)), sortOf(fn.Signature.Results().At(i).Type())))
		}
		return rs
	}
	if len(sites) == 0 {
		// the callee never returns on any path
		return h, fresh()
	}
	var edges []heapEdge
	for _, s := range sites {
		edges = append(edges, heapEdge{s.guard, s.heap})
	}
	exit := g.vc.JoinHeaps(edges)
	results := fresh()
	for i := range results {
		for _, s := range sites {
			if i < len(s.results) {
				g.vc.Def(Imp(s.guard, Eq(results[i], s.results[i])))
			}
		}
	}
	return exit, results
}

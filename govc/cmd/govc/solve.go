package main

// Solver portfolio: z3-new first, then cvc5 and z3 4.8 in parallel.

import (
	"bytes"
	"context"
	"os/exec"
	"strings"
	"time"
)

type solverSpec struct {
	name string
	argv func(timeoutSec int) []string
}

var solvers = []solverSpec{
	{"z3-new-5.1.0", func(t int) []string { return []string{"z3-new", "-in", "-T:" + itoa(t)} }},
	{"cvc5-1.0", func(t int) []string {
		return []string{"cvc5", "--lang", "smt2", "--tlimit=" + itoa(t*1000), "--full-saturate-quant"}
	}},
	{"z3-4.8.12", func(t int) []string { return []string{"z3", "-in", "-T:" + itoa(t)} }},
	// the same solver under other random seeds: quantifier instantiation is a heuristic search, and a proof that one
	// seed finds in 0.2 s another may not find in 10 s; the portfolio makes a pass independent of one seed's luck
	{"z3-new-5.1.0/seed3", func(t int) []string {
		return []string{"z3-new", "-in", "-T:" + itoa(t), "smt.random_seed=3", "sat.random_seed=3"}
	}},
	{"z3-new-5.1.0/seed7", func(t int) []string {
		return []string{"z3-new", "-in", "-T:" + itoa(t), "smt.random_seed=7", "sat.random_seed=7"}
	}},
	{"z3-new-5.1.0/seed11", func(t int) []string {
		return []string{"z3-new", "-in", "-T:" + itoa(t), "smt.random_seed=11", "sat.random_seed=11"}
	}},
}

func itoa(n int) string {
	if n == 0 {
		return "0"
	}
	neg := n < 0
	if neg {
		n = -n
	}
	var b []byte
	for n > 0 {
		b = append([]byte{byte('0' + n%10)}, b...)
		n /= 10
	}
	if neg {
		b = append([]byte{'-'}, b...)
	}
	return string(b)
}

type solveResult struct {
	verdict string // unsat sat unknown timeout error
	backend string
	ms      int64
	output  string
}

func runSolver(s solverSpec, query string, timeoutSec int) solveResult {
	argv := s.argv(timeoutSec)
	ctx, cancel := context.WithTimeout(context.Background(), time.Duration(timeoutSec+3)*time.Second)
	defer cancel()
	cmd := exec.CommandContext(ctx, argv[0], argv[1:]...)
	q := query
	if strings.HasPrefix(s.name, "cvc5") {
		q = "(set-logic ALL)\n" + query
	}
	cmd.Stdin = strings.NewReader(q)
	var out bytes.Buffer
	cmd.Stdout = &out
	cmd.Stderr = &out
	start := time.Now()
	_ = cmd.Run()
	ms := time.Since(start).Milliseconds()
	text := out.String()
	first := strings.TrimSpace(text)
	if i := strings.Index(first, "\n"); i >= 0 {
		first = strings.TrimSpace(first[:i])
	}
	v := "error"
	switch first {
	case "unsat", "sat", "unknown":
		v = first
	case "timeout":
		v = "timeout"
	default:
		if ctx.Err() != nil || strings.Contains(text, "timeout") || strings.Contains(text, "interrupted") {
			v = "timeout"
		}
	}
	return solveResult{v, s.name, ms, text}
}

// solve decides one query with the portfolio: z3-new starts first; if it has no answer after a second the
// other solvers join the race. With all=true every solver runs to completion (thorough tier: agreement).
func solve(query string, timeoutSec int, all bool) []solveResult {
	res := make([]solveResult, len(solvers))
	done := make(chan int, len(solvers))
	run := func(i int) {
		res[i] = runSolver(solvers[i], query, timeoutSec)
		done <- i
	}
	go run(0)
	started := 1
	finished := 0
	var out []solveResult
	timer := time.After(700 * time.Millisecond)
	if all {
		timer = time.After(0)
	}
	for finished < started {
		select {
		case i := <-done:
			finished++
			out = append(out, res[i])
			if !all && (res[i].verdict == "unsat" || res[i].verdict == "sat") {
				return out // the losers finish in the background and are ignored
			}
			if started == 1 && !all {
				// first solver gave up quickly: let the others try
				for j := 1; j < len(solvers); j++ {
					go run(j)
					started++
				}
			}
		case <-timer:
			if started == 1 {
				for j := 1; j < len(solvers); j++ {
					go run(j)
					started++
				}
			}
			timer = nil
		}
	}
	return out
}

// decide picks the verdict: any definite answer wins; conflicting definite answers are an error.
func decide(rs []solveResult) solveResult {
	var def *solveResult
	for i := range rs {
		r := &rs[i]
		if r.verdict == "unsat" || r.verdict == "sat" {
			if def == nil {
				def = r
			} else if def.verdict != r.verdict {
				return solveResult{"error", def.backend + "+" + r.backend, def.ms, "solvers disagree: " + def.backend + "=" + def.verdict + " " + r.backend + "=" + r.verdict}
			}
		}
	}
	if def != nil {
		return *def
	}
	for _, r := range rs {
		if r.verdict == "timeout" {
			return solveResult{"timeout", r.backend, r.ms, r.output}
		}
	}
	return rs[0]
}

func getModel(query string, timeoutSec int) string {
	q := "(set-option :produce-models true)\n" + strings.Replace(query, "(check-sat)", "(check-sat)\n(get-model)", 1)
	r := runSolver(solvers[0], q, timeoutSec)
	return r.output
}

package main

// Builtins, write sets (default frames), assigns designators and frame obligations.

import (
	"fmt"
	"go/token"
	"go/types"
	"strings"

	"golang.org/x/tools/go/ssa"
)

func (w *World) isRepoFunc(fn *ssa.Function) bool {
	var path string
	if fn.Pkg != nil {
		path = fn.Pkg.Pkg.Path()
	} else if p := fn.Parent(); p != nil && p.Pkg != nil {
		path = p.Pkg.Pkg.Path()
	} else if o := fn.Origin(); o != nil && o.Pkg != nil {
		path = o.Pkg.Pkg.Path()
	}
	return strings.HasPrefix(path, "github.com/f1bonacc1/process-compose")
}

// ---------- builtins ----------

func (g *Gen) builtin(b *ssa.Builtin, c *ssa.CallCommon, args []string, h *Heap, guard string, pos token.Pos) (*Heap, []string) {
	m := g.model
	switch b.Name() {
	case "len":
		t := c.Args[0].Type()
		switch u := t.Underlying().(type) {
		case *types.Slice:
			return h, []string{m.slLen(args[0])}
		case *types.Map:
			return h, []string{m.mapCard(h, u, args[0])}
		case *types.Basic:
			g.vc.ensureStrBase()
			return h, []string{App("slen", args[0])}
		case *types.Chan:
			return h, []string{g.vc.Fresh("chanlen", SInt)}
		case *types.Pointer, *types.Array:
			return h, []string{g.vc.Fresh("arrlen", SInt)}
		}
	case "cap":
		if _, ok := c.Args[0].Type().Underlying().(*types.Slice); ok {
			return h, []string{m.slCap(args[0])}
		}
		return h, []string{g.vc.Fresh("cap", SInt)}
	case "append":
		return g.appendBuiltin(c, args, h, guard)
	case "copy":
		if sl, ok := c.Args[0].Type().Underlying().(*types.Slice); ok {
			if _, srcIsSlice := c.Args[1].Type().Underlying().(*types.Slice); srcIsSlice {
				et := sl.Elem()
				es := elemSort(et)
				name := elemVar(et)
				srt := ArrSort(SInt, ArrSort(SInt, es))
				E := h.Get(name, srt)
				d, s := args[0], args[1]
				n := g.vc.Fresh("copied", SInt)
				g.vc.Def(Eq(n, Ite(App("<=", m.slLen(d), m.slLen(s)), m.slLen(d), m.slLen(s))))
				dRow, sRow := Sel(E, m.slBase(d)), Sel(E, m.slBase(s))
				B := g.defRow("copy.row", es, fmt.Sprintf("(ite (and (<= %s i) (< i (+ %s %s))) (select %s (+ %s (- i %s))) (select %s i))",
					m.slOff(d), m.slOff(d), n, sRow, m.slOff(s), m.slOff(d), dRow))
				return h.Set(name, srt, Sto(E, m.slBase(d), B)), []string{n}
			}
			name := elemVar(sl.Elem())
			g.vc.noteHeapVar(name, ArrSort(SInt, ArrSort(SInt, elemSort(sl.Elem()))))
			g.vc.abstract("copy() from a string: destination array contents havocked")
			return h.HavocVars([]string{name}), []string{g.vc.Fresh("copied", SInt)}
		}
		return h, []string{g.vc.Fresh("copied", SInt)}
	case "delete":
		mt := c.Args[0].Type().Underlying().(*types.Map)
		return m.mapDelete(h, mt, args[0], args[1]), nil
	case "close":
		// `after close assert ...`: facts that must hold when a channel is closed (evaluated just before the close)
		for _, a := range g.contract.After["close"] {
			tm, err := g.envAt(h, g.blockCur).EvalBool(a.E)
			if err != nil {
				g.errorf("%s: after close assert %s: %v", a.Line, a.Name, err)
				continue
			}
			g.vc.Assert(fmt.Sprintf("%s#lemma:%s@%d", funcKey(g.fn), a.Name, g.ordinal("lemma:close:"+a.Name)), "lemma", guard, tm, g.pos(pos), a.Text)
		}
		// closing a channel: latch facts are attached through the `onClose` define, if present
		if _, ok := g.specs.Ghosts["closed"]; ok {
			srt := ArrSort(SInt, SBool)
			cur := h.Get("G.closed", srt)
			g.nopanicClose(guard, Not(Sel(cur, args[0])), pos)
			return h.Set("G.closed", srt, Sto(cur, args[0], "true")), nil
		}
		return h, nil
	case "print", "println":
		return h, nil
	case "min", "max":
		op := "<="
		if b.Name() == "max" {
			op = ">="
		}
		r := args[0]
		for _, a := range args[1:] {
			r = Ite(App(op, r, a), r, a)
		}
		return h, []string{r}
	case "ssa:wrapnilchk":
		return h, []string{args[0]}
	case "recover":
		return h, []string{"0"}
	case "clear":
		g.vc.abstract("clear(): abstracted as havoc")
		return g.havocAll(h, guard, "clear()"), nil
	}
	g.errorf("unsupported builtin %s", b.Name())
	return h, []string{g.vc.Fresh("builtin", SInt)}
}

func (g *Gen) nopanicClose(guard, goal string, pos token.Pos) {
	if !g.safety["close"] {
		return
	}
	name := fmt.Sprintf("%s#nopanic:close@%d", funcKey(g.fn), g.ordinal("nopanic:close"))
	g.vc.Assert(name, "nopanic", guard, goal, g.pos(pos), "close of a channel that is not yet closed")
}

// singleUse: the SSA value is used by exactly one instruction (ignoring debug references).
func singleUse(v ssa.Value) bool {
	refs := v.Referrers()
	if refs == nil {
		return false
	}
	n := 0
	for _, r := range *refs {
		if _, dbg := r.(*ssa.DebugRef); dbg {
			continue
		}
		n++
	}
	return n == 1
}

// defRow names an array given by a lambda body over index variable i (quantified definition with a
// select pattern; inline lambdas inside nested arrays make z3 give up with "incomplete (theory array)").
func (g *Gen) defRow(prefix string, es Sort, body string) string {
	sym := g.vc.Fresh(prefix, ArrSort(SInt, es))
	g.vc.Def(fmt.Sprintf("(forall ((i Int)) (! (= (select %s i) %s) :pattern ((select %s i))))", sym, body, sym))
	return sym
}

func (g *Gen) appendBuiltin(c *ssa.CallCommon, args []string, h *Heap, guard string) (*Heap, []string) {
	m := g.model
	st := c.Args[0].Type().Underlying().(*types.Slice)
	et := st.Elem()
	es := elemSort(et)
	s, t := args[0], args[1]
	name := elemVar(et)
	srt := ArrSort(SInt, ArrSort(SInt, es))
	E := h.Get(name, srt)
	if _, isStr := c.Args[1].Type().Underlying().(*types.Basic); isStr {
		// append([]byte, string...)
		g.vc.abstract("append of string bytes: contents abstracted")
		r := g.vc.Fresh("appended", SInt)
		return h.HavocVars([]string{name}), []string{r}
	}
	lenS, lenT := m.slLen(s), m.slLen(t)
	newLen := App("+", lenS, lenT)
	inPlace := g.vc.Fresh("append.inplace", SBool)
	if freshSliceVal(c.Args[0]) && singleUse(c.Args[0]) {
		// the old slice value is function-local and dead after this append: writing in place or into a
		// new array is indistinguishable; model the copy only
		g.vc.Def(Not(inPlace))
	} else {
		g.vc.Def(Eq(inPlace, And(App("<=", newLen, m.slCap(s)), Not(Eq(m.slBase(s), "0")))))
	}
	// fresh backing array for the reallocating case
	nb, h2 := m.alloc(h, guard, "array")
	A := g.vc.Fresh("append.arr", ArrSort(SInt, es))
	base := Ite(inPlace, m.slBase(s), nb)
	off := Ite(inPlace, m.slOff(s), "0")
	cp := g.vc.Fresh("append.cap", SInt)
	g.vc.Def(And(Imp(inPlace, Eq(cp, m.slCap(s))), App(">=", cp, newLen)))
	r := m.mkSlice(base, off, newLen, cp)
	// contents
	single := ""
	if sl, ok := c.Args[1].(*ssa.Slice); ok {
		if al, ok := sl.X.(*ssa.Alloc); ok {
			if at, ok := al.Type().Underlying().(*types.Pointer).Elem().Underlying().(*types.Array); ok && at.Len() == 1 {
				single = Sel(Sel(E, m.slBase(t)), m.slOff(t))
			}
		}
	}
	oldRow := Sel(E, m.slBase(s))
	var inplaceRow string
	rest := g.vc.Fresh("append.rest", ArrSort(SInt, es)) // unspecified contents beyond the new length
	_ = A
	if single != "" {
		inplaceRow = Sto(oldRow, App("+", m.slOff(s), lenS), single)
		A = g.defRow("append.new", es, fmt.Sprintf("(ite (and (<= 0 i) (< i %s)) (select %s (+ %s i)) (ite (= i %s) %s (select %s i)))", lenS, oldRow, m.slOff(s), lenS, single, rest))
	} else {
		tRow := Sel(E, m.slBase(t))
		inplaceRow = g.defRow("append.inplacerow", es, fmt.Sprintf("(ite (and (<= (+ %s %s) i) (< i (+ %s %s %s))) (select %s (+ %s (- i (+ %s %s)))) (select %s i))",
			m.slOff(s), lenS, m.slOff(s), lenS, lenT, tRow, m.slOff(t), m.slOff(s), lenS, oldRow))
		A = g.defRow("append.new", es, fmt.Sprintf("(ite (and (<= 0 i) (< i %s)) (select %s (+ %s i)) (ite (and (<= %s i) (< i (+ %s %s))) (select %s (+ %s (- i %s))) (select %s i)))",
			lenS, oldRow, m.slOff(s), lenS, lenS, lenT, tRow, m.slOff(t), lenS, rest))
	}
	hIn := h2.Set(name, srt, Sto(E, m.slBase(s), inplaceRow))
	hRe := h2.Set(name, srt, Sto(E, nb, A))
	h3 := g.vc.JoinHeaps([]heapEdge{{inPlace, hIn}, {Not(inPlace), hRe}})
	return h3, []string{r}
}

// ---------- write sets ----------

func (w *World) writeSet(fn *ssa.Function, g *Gen) *WriteSet {
	if ws, ok := w.wsMemo[fn]; ok {
		return ws
	}
	if w.wsBusy[fn] {
		return &WriteSet{Vars: map[string]Sort{}} // recursion: fixed point reached by the outer call
	}
	w.wsBusy[fn] = true
	ws := &WriteSet{Vars: map[string]Sort{}}
	savedScope := freshScope
	freshScope = nil
	for _, b := range fn.Blocks {
		for _, in := range b.Instrs {
			w.instrWrites(in, ws, nil)
		}
	}
	freshScope = savedScope
	// the ghost updates the function's own contract declares (`sets`) are writes of the function: a caller that
	// havocs the default frame must havoc them too (otherwise the update contradicts "unchanged")
	if ct := w.specs.Contracts[canonKey(funcKey(fn))]; ct != nil {
		for _, sd := range ct.Sets {
			names, all := w.designatorVars(sd.Target, fn, ct)
			if all {
				ws.All, ws.Why = true, "sets "+sd.Target
			}
			for n, srt := range names {
				ws.add(n, srt)
			}
		}
	}
	delete(w.wsBusy, fn)
	w.wsMemo[fn] = ws
	return ws
}

func addStructVars(ws *WriteSet, t types.Type) {
	st, tn, ok := structOf(t)
	if !ok {
		return
	}
	for i := 0; i < st.NumFields(); i++ {
		f := st.Field(i)
		if isStruct(f.Type()) {
			addStructVars(ws, f.Type())
			continue
		}
		ws.add(fieldVar(tn, f.Name()), ArrSort(SInt, sortOf(f.Type())))
	}
}

func (w *World) instrWrites(in ssa.Instruction, ws *WriteSet, g *Gen) {
	switch x := in.(type) {
	case *ssa.Store:
		w.ptrWrites(x.Addr, ws)
	case *ssa.MapUpdate:
		mt := x.Map.Type().Underlying().(*types.Map)
		ks, vs := sortOf(mt.Key()), sortOf(mt.Elem())
		ws.add(mapDomVar(mt), ArrSort(SInt, ArrSort(ks, SBool)))
		ws.add(mapValVar(mt), ArrSort(SInt, ArrSort(ks, vs)))
	case *ssa.Alloc:
		// zero-initialisation writes the cells of a fresh object: invisible to callers, but inside a loop
		// the havoc must cover them
		pt := x.Type().Underlying().(*types.Pointer).Elem()
		if isStruct(pt) {
			tmp := &WriteSet{Vars: map[string]Sort{}}
			addStructVars(tmp, pt)
			for n, s := range tmp.Vars {
				ws.addFresh(n, s)
			}
		} else if at, isArr := pt.Underlying().(*types.Array); isArr {
			ws.addFresh(elemVar(at.Elem()), ArrSort(SInt, ArrSort(SInt, elemSort(at.Elem()))))
		} else {
			ws.addFresh(cellVar(pt), ArrSort(SInt, sortOf(pt)))
		}
	case *ssa.MakeMap:
		mt := x.Type().Underlying().(*types.Map)
		ws.addFresh(mapDomVar(mt), ArrSort(SInt, ArrSort(sortOf(mt.Key()), SBool)))
	case *ssa.MakeSlice:
		et := x.Type().Underlying().(*types.Slice).Elem()
		ws.addFresh(elemVar(et), ArrSort(SInt, ArrSort(SInt, elemSort(et))))
	case *ssa.Range:
		if _, ok := x.X.Type().Underlying().(*types.Map); ok && g != nil {
			// seen-set of this iterator: named at generation time
			if ri := g.ranges[x]; ri != nil {
				ws.add(ri.seenVar, ri.seenSort)
			}
		}
	case *ssa.Next:
		if g != nil {
			if rng, ok := x.Iter.(*ssa.Range); ok {
				if ri := g.ranges[rng]; ri != nil {
					ws.add(ri.seenVar, ri.seenSort)
				}
			}
		}
	case *ssa.Call:
		w.callWrites(x.Common(), ws, g, x.Parent())
	case *ssa.Defer:
		w.callWrites(&x.Call, ws, g, x.Parent())
	case *ssa.Go:
		// the spawned goroutine's writes are interference, not part of the sequential frame
		if _, ok := w.specs.Ghosts["spawned"]; ok {
			ws.add("G.spawned", ArrSort(SInt, SInt))
		}
		if sc := x.Call.StaticCallee(); sc != nil {
			if ct := w.specs.Contracts[funcKey(sc)]; ct != nil {
				for _, sd := range ct.SpawnSets {
					names, all := w.designatorVars(sd.Target, sc, ct)
					if all {
						ws.All, ws.Why = true, "spawnsets "+sd.Target
					}
					for n, s := range names {
						ws.add(n, s)
					}
				}
			}
		}
	case *ssa.Send, *ssa.Select:
		w.interferenceWrites(ws, g)
		ws.Recvs = true
		if _, isSend := in.(*ssa.Send); isSend {
			if _, ok := w.specs.Ghosts["sends"]; ok {
				ws.add("G.sends", SInt)
			}
		}
		if _, ok := w.specs.Ghosts["slept"]; ok {
			ws.add("G.slept", SInt)
			ws.add("G.lastWait", SInt)
		}
	case *ssa.UnOp:
		if x.Op == token.ARROW {
			w.interferenceWrites(ws, g)
			ws.Recvs = true
			if _, ok := w.specs.Ghosts["slept"]; ok {
				ws.add("G.slept", SInt)
				ws.add("G.lastWait", SInt)
			}
		}
	}
}

func (w *World) interferenceWrites(ws *WriteSet, g *Gen) {
	ws.Yields = true
	if _, ok := w.specs.Ghosts["causeOk"]; ok {
		ws.add("G.causeOk", ArrSort(SInt, SBool))
	}
	for key, ann := range w.specs.FieldAnn {
		if ann["shared"] == "" {
			continue
		}
		i := lastDot(key)
		// sort is discovered lazily: record with unknown sort marker resolved at havoc time
		name := fieldVar(key[:i], key[i+1:])
		if g != nil {
			if s, ok := g.vc.heapVarSorts[name]; ok {
				ws.add(name, s)
				continue
			}
		}
		if ann["sort"] != "" {
			ws.add(name, ArrSort(SInt, Sort(ann["sort"])))
		}
	}
	for _, gd := range w.specs.Ghosts {
		if gd.Kind == "ghost" && gd.Monotone {
			var sorts []Sort
			ok := true
			for _, p := range gd.Params {
				t := w.resolveType(p, nil)
				if t == nil {
					ok = false
					break
				}
				sorts = append(sorts, sortOf(t))
			}
			if ok {
				ws.add("G."+gd.Name, ghostSort(sorts, SBool))
			}
		}
	}
}

// freshRoot: the address is inside an object allocated by this very function.
// freshScope restricts which allocations count as fresh (loop bodies); nil = the whole function.
var freshScope map[*ssa.BasicBlock]bool

func freshRoot(addr ssa.Value) bool {
	for {
		switch a := addr.(type) {
		case *ssa.Alloc:
			return freshScope == nil || freshScope[a.Block()]
		case *ssa.FieldAddr:
			addr = a.X
		case *ssa.IndexAddr:
			if _, isPtr := a.X.Type().Underlying().(*types.Pointer); !isPtr {
				return false
			}
			addr = a.X
		default:
			return false
		}
	}
}

// freshSliceVal: the slice's backing array was allocated by this very function.
func freshSliceVal(v ssa.Value) bool {
	for {
		switch a := v.(type) {
		case *ssa.MakeSlice:
			return freshScope == nil || freshScope[a.Block()]
		case *ssa.Slice:
			if _, isPtr := a.X.Type().Underlying().(*types.Pointer); isPtr {
				return freshRoot(a.X)
			}
			v = a.X
		case *ssa.Call:
			// the result of append() on a fresh slice is fresh
			if b, ok := a.Call.Value.(*ssa.Builtin); ok && b.Name() == "append" && len(a.Call.Args) > 0 {
				v = a.Call.Args[0]
				continue
			}
			return false
		default:
			return false
		}
	}
}

func (w *World) ptrWrites(addr ssa.Value, ws *WriteSet) {
	if freshRoot(addr) {
		tmp := &WriteSet{Vars: map[string]Sort{}}
		w.ptrWrites2(addr, tmp)
		for n, s := range tmp.Vars {
			ws.addFresh(n, s)
		}
		return
	}
	w.ptrWrites2(addr, ws)
}

func (w *World) ptrWrites2(addr ssa.Value, ws *WriteSet) {
	pt := addr.Type().Underlying().(*types.Pointer).Elem()
	switch a := addr.(type) {
	case *ssa.FieldAddr:
		st, tn, _ := structOf(a.X.Type())
		f := st.Field(a.Field)
		if isStruct(f.Type()) {
			addStructVars(ws, f.Type())
		} else {
			ws.add(fieldVar(tn, f.Name()), ArrSort(SInt, sortOf(f.Type())))
		}
		return
	case *ssa.IndexAddr:
		var et types.Type
		switch u := a.X.Type().Underlying().(type) {
		case *types.Slice:
			et = u.Elem()
		case *types.Pointer:
			if at, ok := u.Elem().Underlying().(*types.Array); ok {
				et = at.Elem()
			}
		}
		if et != nil {
			ws.add(elemVar(et), ArrSort(SInt, ArrSort(SInt, elemSort(et))))
		}
		return
	}
	if isStruct(pt) {
		addStructVars(ws, pt)
		return
	}
	if _, isArr := pt.Underlying().(*types.Array); isArr {
		return
	}
	ws.add(cellVar(pt), ArrSort(SInt, sortOf(pt)))
}

func (w *World) callWrites(c *ssa.CallCommon, ws *WriteSet, g *Gen, encl *ssa.Function) {
	if b, ok := c.Value.(*ssa.Builtin); ok {
		switch b.Name() {
		case "append", "copy":
			if sl, ok := c.Args[0].Type().Underlying().(*types.Slice); ok {
				if freshSliceVal(c.Args[0]) {
					ws.addFresh(elemVar(sl.Elem()), ArrSort(SInt, ArrSort(SInt, elemSort(sl.Elem()))))
				} else {
					ws.add(elemVar(sl.Elem()), ArrSort(SInt, ArrSort(SInt, elemSort(sl.Elem()))))
				}
			}
		case "delete":
			mt := c.Args[0].Type().Underlying().(*types.Map)
			ws.add(mapDomVar(mt), ArrSort(SInt, ArrSort(sortOf(mt.Key()), SBool)))
		case "close":
			if _, ok := w.specs.Ghosts["closed"]; ok {
				ws.add("G.closed", ArrSort(SInt, SBool))
			}
		case "clear":
			ws.All, ws.Why = true, "clear()"
		}
		return
	}
	var ct *Contract
	var fn *ssa.Function
	key := ""
	if c.IsInvoke() {
		key = "(" + canonKey(c.Value.Type().String()) + ")." + c.Method.Name()
		ct = w.specs.Contracts[key]
		if ct == nil {
			rule := ""
			if c.Method.Pkg() != nil {
				rule = w.pkgRulePath(c.Method.Pkg().Path())
			}
			if rule == "" {
				ws.All, ws.Why = true, "interface call "+key+" without contract"
			}
			return
		}
	} else if fn = c.StaticCallee(); fn != nil {
		key = funcKey(fn)
		ct = w.specs.Contracts[key]
		if ct == nil {
			if o := fn.Origin(); o != nil && o != fn {
				ct = w.specs.Contracts[funcKey(o)]
			}
		}
	} else {
		// dynamic: resolved through ParamSpecs of the enclosing function's contract, if any
		if encl != nil {
			if ec := w.specs.Contracts[funcKey(encl)]; ec != nil {
				if k, ok := ec.ParamSpecs[dynCalleeName(c)]; ok {
					key = k
					fn = w.funcs[k]
					ct = w.specs.Contracts[k]
				}
			}
		}
		if ct == nil && fn == nil {
			ws.All, ws.Why = true, "call through function value"
			return
		}
	}
	if ct != nil {
		if ct.Flags["yields"] != "" || (fn != nil && len(fn.Blocks) > 0 && w.isRepoFunc(fn) && w.writeSet(fn, nil).Yields) {
			w.interferenceWrites(ws, g)
		}
		if fn != nil && len(fn.Blocks) > 0 && w.isRepoFunc(fn) && w.writeSet(fn, nil).Recvs {
			ws.Recvs = true
		}
		if ct.Flags["writes_args"] != "" {
			for _, a := range c.Args {
				v := a
				if mi, ok := v.(*ssa.MakeInterface); ok {
					v = mi.X
				}
				if _, ok := v.Type().Underlying().(*types.Pointer); ok {
					w.ptrWrites(v, ws)
				}
			}
		}
		if pn := ct.Flags["frame_of_param"]; pn != "" && fn != nil {
			found := false
			for i, prm := range fn.Params {
				if prm.Name() == pn && i < len(c.Args) {
					if mc, ok := unwrapClosure(c.Args[i]); ok {
						if cf, ok := mc.Fn.(*ssa.Function); ok {
							ws.merge(w.writeSet(cf, nil))
							found = true
						}
					}
				}
			}
			if !found {
				ws.All, ws.Why = true, "function value passed to "+key+" is not a closure literal"
			}
		}
		if ct.HasAssigns {
			for _, d := range ct.allAssigns() {
				// deref(argK) of a function-typed callee: the pointee type comes from the argument at this call
				if dd := strings.TrimSpace(d); fn == nil && strings.HasPrefix(dd, "deref(arg") && strings.HasSuffix(dd, ")") {
					var k int
					if _, err := fmt.Sscanf(dd, "deref(arg%d)", &k); err == nil && k < len(c.Args) {
						if _, isPtr := c.Args[k].Type().Underlying().(*types.Pointer); isPtr {
							w.ptrWrites(c.Args[k], ws)
							continue
						}
					}
				}
				names, all := w.designatorVars(d, fn, ct)
				if all {
					ws.All, ws.Why = true, "assigns "+d+" of "+key
				}
				for n, s := range names {
					ws.add(n, s)
				}
			}
			return
		}
		if ct.Flags["pure"] != "" || ct.Flags["noeffect"] != "" {
			return
		}
		if fn == nil || len(fn.Blocks) == 0 || !w.isRepoFunc(fn) {
			return // extern contract without assigns = assigns nothing
		}
	}
	if fn != nil && len(fn.Blocks) > 0 && w.isRepoFunc(fn) {
		ws.merge(w.writeSet(fn, nil))
		return
	}
	if fn != nil {
		switch w.pkgRule(fn) {
		case "pure", "noeffect":
			return
		}
	}
	ws.All, ws.Why = true, "call to "+key+" (no contract, no package rule)"
}

// designatorVars maps an assigns designator to heap variable names (array granularity).
func (w *World) designatorVarsPkg(d string, pkg *types.Package) (map[string]Sort, bool) {
	savedPkg := designatorPkg
	designatorPkg = pkg
	defer func() { designatorPkg = savedPkg }()
	return w.designatorVars(d, nil, nil)
}

var designatorPkg *types.Package

func (w *World) designatorVars(d string, fn *ssa.Function, ct *Contract) (map[string]Sort, bool) {
	out := map[string]Sort{}
	d = strings.TrimSpace(d)
	if strings.HasPrefix(d, "everything_but") {
		return out, true
	}
	if d == "everything" {
		return out, true
	}
	if strings.HasPrefix(d, "heap(") && strings.HasSuffix(d, ")") {
		n := d[5 : len(d)-1]
		out[n] = heapVarSortByName(n)
		return out, false
	}
	var pkg *types.Package
	if fn != nil && fn.Pkg != nil {
		pkg = fn.Pkg.Pkg
	}
	if pkg == nil {
		pkg = designatorPkg
	}
	// ghost: name(...) or name[*]
	gname := d
	if i := strings.IndexAny(d, "(["); i >= 0 {
		gname = d[:i]
	}
	if gd, ok := w.specs.Ghosts[gname]; ok && gd.Kind == "ghost" {
		var sorts []Sort
		for _, p := range gd.Params {
			t := w.resolveType(p, pkg)
			if t == nil {
				return out, true
			}
			sorts = append(sorts, sortOf(t))
		}
		rt := w.resolveType(gd.Result, pkg)
		if rt == nil {
			return out, true
		}
		out["G."+gd.Name] = ghostSort(sorts, sortOf(rt))
		return out, false
	}
	// Type.field[*]
	if strings.HasSuffix(d, "[*]") {
		body := strings.TrimSuffix(d, "[*]")
		i := strings.LastIndex(body, ".")
		if i > 0 {
			t := w.resolveType(body[:i], pkg)
			if st, tn, ok := structOf2(t); ok {
				for k := 0; k < st.NumFields(); k++ {
					if st.Field(k).Name() == body[i+1:] {
						f := st.Field(k)
						if isStruct(f.Type()) {
							ws := &WriteSet{Vars: map[string]Sort{}}
							addStructVars(ws, f.Type())
							return ws.Vars, false
						}
						out[fieldVar(tn, f.Name())] = ArrSort(SInt, sortOf(f.Type()))
						return out, false
					}
				}
			}
		}
		return out, true
	}
	// lvalue path: resolve statically through the parameter types
	e, err := ParseExpr(d)
	if err != nil {
		return out, true
	}
	if ok := w.lvalueVars(e, fn, ct, out); !ok {
		return out, true
	}
	return out, false
}

// heapVarSortByName derives the sort of an Elem./Cell. heap variable from its name.
func heapVarSortByName(n string) Sort {
	tagSort := func(t string) Sort {
		switch t {
		case "Str":
			return SStr
		case "Bool":
			return SBool
		}
		return SInt
	}
	if strings.HasPrefix(n, "MapDom.") {
		k := n[len("MapDom."):]
		if i := strings.Index(k, "."); i >= 0 {
			k = k[:i]
		}
		return ArrSort(SInt, ArrSort(tagSort(k), SBool))
	}
	if strings.HasPrefix(n, "MapVal.") {
		rest := n[len("MapVal."):]
		k, v := rest, ""
		if i := strings.Index(rest, "."); i >= 0 {
			k, v = rest[:i], rest[i+1:]
		}
		return ArrSort(SInt, ArrSort(tagSort(k), tagSort(v)))
	}
	val := SInt
	switch {
	case strings.HasSuffix(n, ".Str") || strings.HasSuffix(n, ".string"):
		val = SStr
	case strings.HasSuffix(n, ".Bool") || strings.HasSuffix(n, ".bool"):
		val = SBool
	}
	if strings.HasPrefix(n, "Elem.") {
		return ArrSort(SInt, ArrSort(SInt, val))
	}
	return ArrSort(SInt, val)
}

func structOf2(t types.Type) (*types.Struct, string, bool) {
	if t == nil {
		return nil, "", false
	}
	return structOf(t)
}

// staticType computes the Go type of a contract expression that is a path from a parameter.
func (w *World) staticType(e Expr, fn *ssa.Function) types.Type {
	switch x := e.(type) {
	case *EIdent:
		if fn == nil {
			return nil
		}
		for _, p := range fn.Params {
			if p.Name() == x.Name {
				return p.Type()
			}
		}
		if base := baselineParams[funcKey(fn)]; len(base) == len(fn.Params) {
			for i, bn := range base {
				if bn == x.Name {
					return fn.Params[i].Type()
				}
			}
		}
		if x.Name == "recv" && fn.Signature.Recv() != nil && len(fn.Params) > 0 {
			return fn.Params[0].Type()
		}
		for _, fv := range fn.FreeVars {
			if fv.Name() == x.Name {
				return fv.Type().Underlying().(*types.Pointer).Elem()
			}
		}
		if fn.Pkg != nil {
			if o := fn.Pkg.Pkg.Scope().Lookup(x.Name); o != nil {
				if v, ok := o.(*types.Var); ok {
					return v.Type()
				}
			}
		}
	case *ESel:
		bt := w.staticType(x.X, fn)
		if bt == nil {
			return nil
		}
		o, _ := lookupFieldAnyPkg(bt, x.Name)
		if o != nil {
			return o.Type()
		}
	case *EIndex:
		bt := w.staticType(x.X, fn)
		if bt == nil {
			return nil
		}
		switch u := bt.Underlying().(type) {
		case *types.Map:
			return u.Elem()
		case *types.Slice:
			return u.Elem()
		}
	case *ECall:
		if x.Fn == "old" && len(x.Args) == 1 {
			return w.staticType(x.Args[0], fn)
		}
	}
	return nil
}

func (w *World) lvalueVars(e Expr, fn *ssa.Function, ct *Contract, out map[string]Sort) bool {
	switch x := e.(type) {
	case *ESel:
		bt := w.staticType(x.X, fn)
		if bt == nil {
			return false
		}
		// walk embedded path
		obj, index := lookupFieldAnyPkg(bt, x.Name)
		if obj == nil {
			return false
		}
		cur := bt
		for k, idx := range index {
			st, tn, ok := structOf(cur)
			if !ok {
				return false
			}
			f := st.Field(idx)
			if k == len(index)-1 {
				if isStruct(f.Type()) {
					ws := &WriteSet{Vars: map[string]Sort{}}
					addStructVars(ws, f.Type())
					for n, s := range ws.Vars {
						out[n] = s
					}
				} else {
					out[fieldVar(tn, f.Name())] = ArrSort(SInt, sortOf(f.Type()))
				}
			}
			cur = f.Type()
		}
		return true
	case *EIndex:
		bt := w.staticType(x.X, fn)
		if bt == nil {
			return false
		}
		switch u := bt.Underlying().(type) {
		case *types.Map:
			out[mapDomVar(u)] = ArrSort(SInt, ArrSort(sortOf(u.Key()), SBool))
			out[mapValVar(u)] = ArrSort(SInt, ArrSort(sortOf(u.Key()), sortOf(u.Elem())))
			return true
		case *types.Slice:
			out[elemVar(u.Elem())] = ArrSort(SInt, ArrSort(SInt, elemSort(u.Elem())))
			return true
		}
	case *ECall:
		if (x.Fn == "elems" || x.Fn == "entries") && len(x.Args) == 1 {
			return w.lvalueVars(&EIndex{x.Args[0], &EInt{"0"}}, fn, ct, out)
		}
		if x.Fn == "deref" && len(x.Args) == 1 {
			bt := w.staticType(x.Args[0], fn)
			if bt == nil {
				return false
			}
			if p, ok := bt.Underlying().(*types.Pointer); ok {
				if isStruct(p.Elem()) {
					ws := &WriteSet{Vars: map[string]Sort{}}
					addStructVars(ws, p.Elem())
					for n, s := range ws.Vars {
						out[n] = s
					}
				} else {
					out[cellVar(p.Elem())] = ArrSort(SInt, sortOf(p.Elem()))
				}
				return true
			}
		}
	}
	return false
}

// ---------- designator havoc (call sites) and frame obligations (callee side) ----------

type cellTarget struct {
	varName string
	sort    Sort
	addrs   []string // index path; nil = whole variable
}

// designatorCells evaluates a designator in env to concrete cells.
func (g *Gen) designatorCells(d string, env *Env) ([]cellTarget, error) {
	d = strings.TrimSpace(d)
	gname := d
	if i := strings.IndexAny(d, "(["); i >= 0 {
		gname = d[:i]
	}
	if gd, ok := g.specs.Ghosts[gname]; ok && gd.Kind == "ghost" {
		var sorts []Sort
		for _, p := range gd.Params {
			t := g.resolveType(p, env.pkg)
			if t == nil {
				return nil, fmt.Errorf("ghost %s: unknown type %s", gname, p)
			}
			sorts = append(sorts, sortOf(t))
		}
		rt := g.resolveType(gd.Result, env.pkg)
		ct := cellTarget{varName: "G." + gd.Name, sort: ghostSort(sorts, sortOf(rt))}
		if strings.HasSuffix(d, "[*]") || d == gname {
			return []cellTarget{ct}, nil
		}
		e, err := ParseExpr(d)
		if err != nil {
			return nil, err
		}
		call, ok := e.(*ECall)
		if !ok {
			return nil, fmt.Errorf("bad ghost designator %s", d)
		}
		for _, a := range call.Args {
			v, err := env.EvalVal(a)
			if err != nil {
				return nil, err
			}
			ct.addrs = append(ct.addrs, v.T)
		}
		return []cellTarget{ct}, nil
	}
	if d == "everything" {
		return nil, fmt.Errorf("everything")
	}
	if strings.HasPrefix(d, "heap(") && strings.HasSuffix(d, ")") {
		n := d[5 : len(d)-1]
		return []cellTarget{{varName: n, sort: heapVarSortByName(n)}}, nil
	}
	if strings.HasSuffix(d, "[*]") {
		vars, all := g.w.designatorVars(d, g.calleeFnFor(env), nil)
		if all {
			return nil, fmt.Errorf("cannot resolve %s", d)
		}
		var out []cellTarget
		var vn []string
		for n := range vars {
			vn = append(vn, n)
		}
		sortStrings(vn)
		for _, n := range vn {
			out = append(out, cellTarget{varName: n, sort: vars[n]})
		}
		return out, nil
	}
	e, err := ParseExpr(d)
	if err != nil {
		return nil, err
	}
	return g.lvalueCells(e, env)
}

func (g *Gen) calleeFnFor(env *Env) *ssa.Function { return nil }

var wholeRow bool

func (g *Gen) lvalueCells(e Expr, env *Env) ([]cellTarget, error) {
	switch x := e.(type) {
	case *ESel:
		b, err := env.EvalVal(x.X)
		if err != nil {
			return nil, err
		}
		obj, index := lookupFieldAnyPkg(b.Ty, x.Name)
		if obj == nil {
			return nil, fmt.Errorf("no field %s", x.Name)
		}
		cur := b
		for k, idx := range index {
			st, tn, ok := structOf(cur.Ty)
			if !ok || !(cur.Addr || isPointer(cur.Ty)) {
				return nil, fmt.Errorf("designator %s does not denote memory", exprString(e))
			}
			f := st.Field(idx)
			if k == len(index)-1 {
				if isStruct(f.Type()) {
					return g.structCells(f.Type(), g.model.subAddr(tn, f.Name(), cur.T)), nil
				}
				return []cellTarget{{varName: fieldVar(tn, f.Name()), sort: ArrSort(SInt, sortOf(f.Type())), addrs: []string{cur.T}}}, nil
			}
			cur = env.step(cur, idx)
		}
	case *EIndex:
		b, err := env.EvalVal(x.X)
		if err != nil {
			return nil, err
		}
		switch u := b.Ty.Underlying().(type) {
		case *types.Map:
			ks, vs := sortOf(u.Key()), sortOf(u.Elem())
			addrs := []string{b.T}
			if lit, isLit := x.I.(*EInt); !(isLit && lit.V == "0" && wholeRow) {
				k, err := env.EvalVal(x.I)
				if err != nil {
					return nil, err
				}
				addrs = []string{b.T, k.T}
			}
			return []cellTarget{
				{varName: mapDomVar(u), sort: ArrSort(SInt, ArrSort(ks, SBool)), addrs: addrs},
				{varName: mapValVar(u), sort: ArrSort(SInt, ArrSort(ks, vs)), addrs: addrs},
			}, nil
		case *types.Slice:
			return []cellTarget{{varName: elemVar(u.Elem()), sort: ArrSort(SInt, ArrSort(SInt, elemSort(u.Elem()))), addrs: []string{g.model.slBase(b.T)}}}, nil
		}
	case *ECall:
		if (x.Fn == "elems" || x.Fn == "entries") && len(x.Args) == 1 {
			wholeRow = true
			defer func() { wholeRow = false }()
			return g.lvalueCells(&EIndex{x.Args[0], &EInt{"0"}}, env)
		}
		if x.Fn == "deref" && len(x.Args) == 1 {
			b, err := env.EvalVal(x.Args[0])
			if err != nil {
				return nil, err
			}
			if p, ok := b.Ty.Underlying().(*types.Pointer); ok {
				if isStruct(p.Elem()) {
					return g.structCells(p.Elem(), b.T), nil
				}
				return []cellTarget{{varName: cellVar(p.Elem()), sort: ArrSort(SInt, sortOf(p.Elem())), addrs: []string{b.T}}}, nil
			}
		}
	}
	return nil, fmt.Errorf("unsupported assigns designator %s", exprString(e))
}

func (g *Gen) structCells(t types.Type, addr string) []cellTarget {
	st, tn, _ := structOf(t)
	var out []cellTarget
	for i := 0; i < st.NumFields(); i++ {
		f := st.Field(i)
		if isStruct(f.Type()) {
			out = append(out, g.structCells(f.Type(), g.model.subAddr(tn, f.Name(), addr))...)
			continue
		}
		out = append(out, cellTarget{varName: fieldVar(tn, f.Name()), sort: ArrSort(SInt, sortOf(f.Type())), addrs: []string{addr}})
	}
	return out
}

func elemSortOfArr(s Sort, depth int) Sort {
	// s = (Array K V): return V after `depth` selects
	cur := string(s)
	for i := 0; i < depth; i++ {
		// strip "(Array K " prefix and ")" suffix
		inner := cur[len("(Array "):]
		// K is either a simple sort or parenthesised
		k := 0
		if inner[0] == '(' {
			d := 0
			for j, c := range inner {
				if c == '(' {
					d++
				} else if c == ')' {
					d--
					if d == 0 {
						k = j + 1
						break
					}
				}
			}
		} else {
			k = strings.Index(inner, " ")
		}
		cur = strings.TrimSpace(inner[k:])
		cur = cur[:len(cur)-1]
	}
	return Sort(cur)
}

// havocDesignators havocs exactly the designated cells.
func (g *Gen) havocDesignators(h *Heap, ds []string, env *Env, guard string) (*Heap, error) {
	var firstErr error
	if len(ds) > 0 && strings.HasPrefix(strings.TrimSpace(ds[0]), "everything_but") {
		var own []string
		for _, d := range ds {
			isSet := false
			for _, c := range g.specs.Contracts {
				_ = c
			}
			if !strings.Contains(d, "everything_but") && !strings.HasSuffix(strings.TrimSpace(d), "[*]") && !strings.HasPrefix(strings.TrimSpace(d), "heap(") {
				isSet = true // targets of `sets` clauses are appended after the declared frame; they are modified, not kept
			}
			if !isSet {
				own = append(own, d)
			}
		}
		keep := g.keptVars(own, env.pkg)
		g.vc.abstract("havoc of the modelled heap except " + strings.Join(keep, ", "))
		h2 := h.HavocAllBut(keep)
		g.vc.AssumeAt(guard, App(">=", g.model.allocNow(h2), g.model.allocNow(h)), "allocation counter is monotone")
		g.assumeMonotone(h, h2, guard, nil)
		return h2, nil
	}
	for _, d := range ds {
		if strings.TrimSpace(d) == "everything" {
			return g.havocAll(h, guard, "assigns everything"), firstErr
		}
		cells, err := g.designatorCells(d, env)
		if err != nil {
			if firstErr == nil {
				firstErr = fmt.Errorf("%s: %v", d, err)
			}
			continue
		}
		for _, c := range cells {
			cur := h.Get(c.varName, c.sort)
			if len(c.addrs) == 0 {
				h2 := h.HavocVars([]string{c.varName})
				g.assumeMonotone(h, h2, guard, []string{c.varName})
				h = h2
				continue
			}
			vs := elemSortOfArr(c.sort, len(c.addrs))
			nv := g.vc.Fresh("havoc."+c.varName, vs)
			// nested store
			h = h.Set(c.varName, c.sort, nestedStore(cur, c.addrs, nv))
			if strings.HasPrefix(c.varName, "G.") {
				if gd := g.specs.Ghosts[c.varName[2:]]; gd != nil && gd.Monotone {
					g.vc.AssumeAt(guard, Imp(nestedSelect(cur, c.addrs), nv), "latch is monotone")
				}
			}
		}
	}
	return h, firstErr
}

func nestedSelect(arr string, idx []string) string {
	for _, i := range idx {
		arr = Sel(arr, i)
	}
	return arr
}

func nestedStore(arr string, idx []string, v string) string {
	if len(idx) == 1 {
		return Sto(arr, idx[0], v)
	}
	return Sto(arr, idx[0], nestedStore(Sel(arr, idx[0]), idx[1:], v))
}

// keptVars: heap variables named after `everything_but`.
func (g *Gen) keptVars(ds []string, pkg *types.Package) []string {
	var keep []string
	for i, d := range ds {
		d = strings.TrimSpace(d)
		if i == 0 {
			d = strings.TrimSpace(strings.TrimPrefix(d, "everything_but"))
		}
		if d == "" {
			continue
		}
		vars, all := g.w.designatorVarsPkg(d, pkg)
		if all {
			g.errorf("everything_but: cannot resolve %s", d)
			continue
		}
		for n, s := range vars {
			g.vc.noteHeapVar(n, s)
			keep = append(keep, n)
		}
	}
	sortStrings(keep)
	return keep
}

// frameObligations: every heap variable the function may have changed is either designated or unchanged
// on all cells that existed at entry.
func (g *Gen) frameObligations(exit *Heap, guard string, pos string) {
	env := g.envAt(g.entry, nil) // designators are evaluated in the pre-state
	if as := g.contract.allAssigns(); len(as) > 0 && strings.HasPrefix(strings.TrimSpace(as[0]), "everything_but") {
		alloc0 := g.model.allocNow(g.entry)
		for _, n := range g.keptVars(g.contract.Assigns, g.fn.Pkg.Pkg) {
			s := g.vc.heapVarSorts[n]
			a, b := g.entry.Get(n, s), exit.Get(n, s)
			if a == b {
				continue
			}
			goal := Eq(a, b)
			if strings.HasPrefix(string(s), "(Array Int ") {
				goal = fmt.Sprintf("(forall ((fr Int)) (=> (< (root fr) %s) (= (select %s fr) (select %s fr))))", alloc0, b, a)
			}
			g.vc.Assert(fmt.Sprintf("%s#frame:%s", funcKey(g.fn), n), "frame", guard, goal, pos, "assigns everything_but: "+n+" is unchanged")
		}
		return
	}
	allowed := map[string][][]string{} // var -> list of allowed index paths (nil entry = whole var)
	for _, d := range g.contract.allAssigns() {
		if strings.TrimSpace(d) == "everything" {
			return
		}
		cells, err := g.designatorCells(d, env)
		if err != nil {
			g.errorf("%s: assigns %s: %v", g.contract.File, d, err)
			return
		}
		for _, c := range cells {
			allowed[c.varName] = append(allowed[c.varName], c.addrs)
		}
	}
	var names []string
	for n := range g.vc.heapVarSorts {
		names = append(names, n)
	}
	sortStrings(names)
	alloc0 := g.model.allocNow(g.entry)
	for _, n := range names {
		if n == allocVar || strings.HasPrefix(n, "Seen.") {
			continue
		}
		if strings.HasPrefix(n, "G.") {
			if gd := g.specs.Ghosts[n[2:]]; gd != nil && (gd.Monotone || gd.Name == "causeOk" || gd.Name == "acquires" || gd.Name == "slept" || gd.Name == "lastWait") {
				continue // latches are set by other goroutines at any time (rely); never framed
			}
		}
		s := g.vc.heapVarSorts[n]
		a, b := g.entry.Get(n, s), exit.Get(n, s)
		if a == b {
			continue
		}
		whole := false
		for _, p := range allowed[n] {
			if p == nil {
				whole = true
			}
		}
		if whole {
			continue
		}
		var goal string
		if !strings.HasPrefix(string(s), "(Array") {
			goal = Eq(a, b)
		} else {
			ks := keySortOfArr(s)
			var excl []string
			for _, p := range allowed[n] {
				excl = append(excl, Not(Eq("fr", p[0])))
			}
			cond := And(excl...)
			if ks == SInt && !strings.HasPrefix(n, "G.") {
				cond = And(cond, App("<", App("root", "fr"), alloc0))
			}
			goal = fmt.Sprintf("(forall ((fr %s)) (=> %s (= (select %s fr) (select %s fr))))", ks, cond, b, a)
			// cells designated with a deeper path: everything else in that row is unchanged
			for _, p := range allowed[n] {
				if len(p) > 1 {
					ks2 := keySortOfArr(elemSortOfArr(s, 1))
					goal = And(goal, fmt.Sprintf("(forall ((fr2 %s)) (=> (not (= fr2 %s)) (= (select (select %s %s) fr2) (select (select %s %s) fr2))))", ks2, p[1], b, p[0], a, p[0]))
				}
			}
		}
		g.vc.Assert(fmt.Sprintf("%s#frame:%s", funcKey(g.fn), n), "frame", guard, goal, pos, "assigns clause: "+n+" changes only where designated")
	}
}

func keySortOfArr(s Sort) Sort {
	inner := string(s)[len("(Array "):]
	if inner[0] == '(' {
		d := 0
		for j, c := range inner {
			if c == '(' {
				d++
			} else if c == ')' {
				d--
				if d == 0 {
					return Sort(inner[:j+1])
				}
			}
		}
	}
	return Sort(inner[:strings.Index(inner, " ")])
}

func sortStrings(xs []string) {
	for i := 1; i < len(xs); i++ {
		for j := i; j > 0 && xs[j] < xs[j-1]; j-- {
			xs[j], xs[j-1] = xs[j-1], xs[j]
		}
	}
}

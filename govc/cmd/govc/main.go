package main

import (
	"flag"
	"fmt"
	"os"
	"path/filepath"
	"sort"
	"strings"
	"sync"
	"time"

	"go/types"

	"golang.org/x/tools/go/packages"
	"golang.org/x/tools/go/ssa"
	"golang.org/x/tools/go/ssa/ssautil"
)

// repoDir is the repository under verification. Registered checks always use /repo; GOVC_REPO lets a developer point the
// tool at a scratch worktree (mutant sweeps) and GOVC_OUT redirects evidence/ and replay/ so that such runs never
// overwrite the evidence of the real tree.
var repoDir = envOr("GOVC_REPO", "/repo")

var verifDir = envOr("GOVC_VERIF", "/verif")

var outDir = envOr("GOVC_OUT", verifDir)

func envOr(k, d string) string {
	if v := os.Getenv(k); v != "" {
		return v
	}
	return d
}

func loadWorld(patterns []string) (*World, error) {
	cfg := &packages.Config{Mode: packages.LoadAllSyntax, Dir: repoDir, BuildFlags: []string{"-tags=verif"},
		Env: append(os.Environ(), "GOFLAGS=-mod=mod", "GOPROXY=off", "GOSUMDB=off", "GOTOOLCHAIN=local")}
	pkgs, err := packages.Load(cfg, patterns...)
	if err != nil {
		return nil, err
	}
	nerr := 0
	packages.Visit(pkgs, nil, func(p *packages.Package) {
		for _, e := range p.Errors {
			if strings.HasPrefix(p.PkgPath, "github.com/f1bonacc1/process-compose") {
				fmt.Fprintf(os.Stderr, "load error: %s: %v\n", p.PkgPath, e)
				nerr++
			}
		}
	})
	if nerr > 0 {
		return nil, fmt.Errorf("%d load errors in repository packages (the tree does not compile)", nerr)
	}
	prog, _ := ssautil.AllPackages(pkgs, ssa.InstantiateGenerics|ssa.GlobalDebug)
	prog.Build()
	w := &World{prog: prog, pkgs: pkgs, specs: NewSpecSet(), funcs: map[string]*ssa.Function{}, allPkgs: map[string]*types.Package{},
		wsMemo: map[*ssa.Function]*WriteSet{}, wsBusy: map[*ssa.Function]bool{}}
	for fn := range ssautil.AllFunctions(prog) {
		if fn.Synthetic != "" && !strings.Contains(fn.Synthetic, "instance") {
			// wrappers and bound-method thunks are not addressable by contracts
			if _, dup := w.funcs[funcKey(fn)]; dup {
				continue
			}
		}
		k := funcKey(fn)
		if old, dup := w.funcs[k]; dup && old.Synthetic == "" {
			continue
		}
		w.funcs[k] = fn
	}
	packages.Visit(pkgs, nil, func(p *packages.Package) {
		if p.Types != nil {
			w.allPkgs[p.PkgPath] = p.Types
		}
	})
	// contract files: in-repo
	packages.Visit(pkgs, nil, func(p *packages.Package) {
		if !strings.HasPrefix(p.PkgPath, "github.com/f1bonacc1/process-compose") {
			return
		}
		dir := ""
		for _, f := range p.GoFiles {
			dir = filepath.Dir(f)
			break
		}
		if dir == "" {
			return
		}
		cf := filepath.Join(dir, "zz_contracts_verif.go")
		if _, err := os.Stat(cf); err == nil {
			if e := w.loadRepoContracts(cf, shortPkg(p.PkgPath)); e != nil && err == nil {
				fmt.Fprintln(os.Stderr, "contract error:", e)
				nerr++
			}
		}
	})
	// extern specs
	specFiles, _ := filepath.Glob(filepath.Join(verifDir, "specs", "*.spec"))
	sort.Strings(specFiles)
	for _, f := range specFiles {
		if e := w.specs.LoadSpecFile(f, ""); e != nil {
			fmt.Fprintln(os.Stderr, "spec error:", e)
			nerr++
		}
	}
	if nerr > 0 {
		return nil, fmt.Errorf("%d contract/spec errors", nerr)
	}
	return w, nil
}

func (w *World) loadRepoContracts(path, pkgShort string) error {
	tmp := NewSpecSet()
	if err := tmp.LoadSpecFile(path, pkgShort); err != nil {
		return err
	}
	for k, c := range tmp.Contracts {
		// keys are "pkg::norm"
		i := strings.Index(k, "::")
		key := contractKeyFromFile(k[:i], k[i+2:])
		c.Key = key
		if _, dup := w.specs.Contracts[key]; dup {
			return fmt.Errorf("%s: duplicate contract %s", path, key)
		}
		w.specs.Contracts[key] = c
	}
	for k, v := range tmp.Ghosts {
		w.specs.Ghosts[k] = v
	}
	for k, v := range tmp.Defines {
		w.specs.Defines[k] = v
	}
	w.specs.Axioms = append(w.specs.Axioms, tmp.Axioms...)
	w.specs.PkgRules = append(w.specs.PkgRules, tmp.PkgRules...)
	for k, v := range tmp.FieldAnn {
		w.specs.FieldAnn[k] = v
	}
	w.specs.Files = append(w.specs.Files, path)
	return nil
}

// knownFailing: obligations listed as known findings (set by the check driver).
var knownFailing = map[string]bool{}

type funcResult struct {
	Key    string
	VC     *VC
	Errors []string
}

// verifyFunc generates and discharges all obligations of one function.
func (w *World) verifyFunc(key string, timeout int, all bool, only string) (*funcResult, error) {
	fn := w.funcs[key]
	if fn == nil {
		return nil, fmt.Errorf("function %s not found", key)
	}
	c := w.specs.Contracts[key]
	if c != nil && c.Flags["trusted"] != "" {
		vc := NewVC(key)
		vc.abstract("contract of " + key + " is TRUSTED: its body is not verified against it")
		return &funcResult{Key: key, VC: vc}, nil
	}
	vc, errs := w.GenFunctionFull(fn, c)
	fr := &funcResult{Key: key, VC: vc, Errors: errs}
	var wg sync.WaitGroup
	sem := make(chan struct{}, 16)
	for _, o := range vc.Obls {
		if only != "" && !strings.Contains(o.Name, only) {
			o.Result = "skipped"
			continue
		}
		wg.Add(1)
		go func(o *Obligation) {
			defer wg.Done()
			sem <- struct{}{}
			defer func() { <-sem }()
			q := vc.Query(o)
			o.Query = q
			o.StrLits = map[string]string{"sempty": ""}
			for text, sym := range vc.strLits {
				o.StrLits[sym] = text
			}
			if d := os.Getenv("GOVC_DUMP"); d != "" {
				os.MkdirAll(d, 0o755)
				os.WriteFile(filepath.Join(d, mangle(o.Name)+".smt2"), []byte(q), 0o644)
			}
			if knownFailing[o.Name] {
				// listed known finding: a short attempt is enough to see whether it still fails
				r := runSolver(solvers[0], q, 3)
				o.Result, o.Backend, o.Ms = r.verdict, r.backend, r.ms
				return
			}
			r := decide(solve(q, timeout, all))
			if r.verdict != "unsat" && r.verdict != "sat" && lockedNow[o.Name] {
				// an obligation that was discharged on the unchanged tree and is now undecided: before it is reported,
				// give every solver and seed three times the time (quantifier instantiation is a heuristic search)
				if r2 := decide(solve(q, timeout*3, true)); r2.verdict == "unsat" || r2.verdict == "sat" {
					r = r2
				}
			}
			o.Result, o.Backend, o.Ms = r.verdict, r.backend, r.ms
			if r.verdict == "sat" {
				o.Model = getModel(q, timeout)
				o.ModelQuery = q
			} else if r.verdict != "unsat" {
				o.Model = r.output
				// candidate counterexample: drop quantified facts (sound only for *finding* inputs, which are then replayed)
				qf := dropQuantified(q)
				if r2 := runSolver(solvers[0], qf, timeout); r2.verdict == "sat" {
					o.Model = "candidate model (quantified axioms dropped; must be confirmed by replay)\n" + getModel(qf, timeout)
					o.ModelQuery = qf
					o.Candidate = true
				}
			}
		}(o)
	}
	wg.Wait()
	return fr, nil
}

func (w *World) GenFunctionFull(fn *ssa.Function, c *Contract) (*VC, []string) {
	vc, errs := w.GenFunction(fn, c)
	return vc, errs
}

func main() {
	if len(os.Args) < 2 {
		fmt.Fprintln(os.Stderr, "usage: govc <check|verify|dump|vc|list> ...")
		os.Exit(2)
	}
	switch os.Args[1] {
	case "dump":
		w, err := loadWorld([]string{"./src/..."})
		must(err)
		for _, k := range os.Args[2:] {
			fn := w.funcs[k]
			if fn == nil {
				fmt.Println("not found:", k)
				for kk := range w.funcs {
					if strings.Contains(kk, k) {
						fmt.Println("  candidate:", kk)
					}
				}
				continue
			}
			fn.WriteTo(os.Stdout)
		}
	case "guarded":
		// lists the repository functions that read or write a field annotated guarded_by
		w, err := loadWorld([]string{"./src/..."})
		must(err)
		var ks []string
		for k, fn := range w.funcs {
			if !w.isRepoFunc(fn) || strings.HasSuffix(w.prog.Fset.Position(fn.Pos()).Filename, "_test.go") {
				continue
			}
			hit := false
			for _, b := range fn.Blocks {
				for _, in := range b.Instrs {
					if fa, ok := in.(*ssa.FieldAddr); ok {
						if st, tn, ok := structOf(fa.X.Type()); ok {
							if ann := w.specs.FieldAnn[tn+"."+st.Field(fa.Field).Name()]; ann != nil && ann["guarded_by"] != "" {
								hit = true
							}
						}
					}
				}
			}
			if hit {
				ks = append(ks, k)
			}
		}
		sort.Strings(ks)
		for _, k := range ks {
			fmt.Println(k)
		}
	case "writes":
		w, err := loadWorld([]string{"./src/..."})
		must(err)
		for _, k := range os.Args[2:] {
			fn := w.funcs[k]
			if fn == nil {
				fmt.Println("not found:", k)
				continue
			}
			ws := w.writeSet(fn, nil)
			var ns []string
			for n := range ws.Vars {
				f := ""
				if ws.FreshOnly[n] {
					f = " (fresh only)"
				}
				ns = append(ns, n+f)
			}
			sort.Strings(ns)
			fmt.Printf("%s: all=%v (%s) yields=%v\n  %s\n", k, ws.All, ws.Why, ws.Yields, strings.Join(ns, "\n  "))
		}
	case "list":
		w, err := loadWorld([]string{"./src/..."})
		must(err)
		var ks []string
		for k, fn := range w.funcs {
			if w.isRepoFunc(fn) && (len(os.Args) < 3 || strings.Contains(k, os.Args[2])) {
				ks = append(ks, k)
			}
		}
		sort.Strings(ks)
		for _, k := range ks {
			fmt.Println(k)
		}
	case "verify", "vc":
		fs := flag.NewFlagSet("verify", flag.ExitOnError)
		timeout := fs.Int("timeout", 10, "per-solver timeout (s)")
		all := fs.Bool("all", false, "run all solvers")
		only := fs.String("only", "", "substring filter on obligation names")
		showQ := fs.Bool("query", false, "print queries of non-discharged obligations")
		fs.Parse(os.Args[2:])
		w, err := loadWorld([]string{"./src/..."})
		must(err)
		bad := 0
		for _, k := range fs.Args() {
			start := time.Now()
			fr, err := w.verifyFunc(k, *timeout, *all, *only)
			if err != nil {
				fmt.Println("ERROR", err)
				bad++
				continue
			}
			for _, e := range fr.Errors {
				fmt.Println("  GENERROR", e)
				bad++
			}
			for _, o := range fr.VC.Obls {
				fmt.Printf("  %-8s %-70s %5dms %s  [%s]\n", o.Result, o.Name, o.Ms, o.Backend, o.Pos)
				if o.Result != "unsat" && o.Result != "skipped" {
					bad++
					if *showQ || os.Args[1] == "vc" {
						fmt.Println(o.Query)
					}
					if o.Model != "" {
						fmt.Println(indent(truncate(o.Model, 6000), "      "))
					}
				}
			}
			for _, a := range fr.VC.Abstracted {
				fmt.Println("  abstracted:", a)
			}
			fmt.Printf("%s: %d obligations, %.1fs\n", k, len(fr.VC.Obls), time.Since(start).Seconds())
		}
		if bad > 0 {
			os.Exit(1)
		}
	case "verify-all":
		// verify every function that has an in-repo contract; prints only what is not discharged
		w, err := loadWorld([]string{"./src/..."})
		must(err)
		var keys []string
		for k, c := range w.specs.Contracts {
			if strings.Contains(c.File, repoDir+"/") && w.funcs[k] != nil {
				keys = append(keys, k)
			} else if strings.Contains(c.File, repoDir+"/") {
				fmt.Println("TARGET-MISSING", k, c.File)
			}
		}
		sort.Strings(keys)
		total, bad := 0, 0
		start := time.Now()
		for _, k := range keys {
			fr, err := w.verifyFunc(k, 10, false, "")
			if err != nil {
				fmt.Println("ERROR", k, err)
				bad++
				continue
			}
			for _, e := range fr.Errors {
				fmt.Println("GENERROR", k, e)
				bad++
			}
			for _, o := range fr.VC.Obls {
				total++
				if o.Result != "unsat" {
					bad++
					fmt.Printf("  %-8s %s [%s]\n", o.Result, o.Name, o.Pos)
				}
			}
		}
		fmt.Printf("%d functions, %d obligations, %d not discharged, %.1fs\n", len(keys), total, bad, time.Since(start).Seconds())
	case "check":
		os.Exit(checkMain(os.Args[2:]))
	default:
		fmt.Fprintln(os.Stderr, "unknown command", os.Args[1])
		os.Exit(2)
	}
}

func dropQuantified(q string) string {
	var out []string
	for _, l := range strings.Split(q, "\n") {
		if strings.HasPrefix(l, "(assert") && (strings.Contains(l, "(forall ") || strings.Contains(l, "(exists ")) && !strings.HasPrefix(l, "(assert (not ") {
			continue
		}
		out = append(out, l)
	}
	return strings.Join(out, "\n")
}

func must(err error) {
	if err != nil {
		fmt.Fprintln(os.Stderr, "fatal:", err)
		os.Exit(2)
	}
}

func indent(s, p string) string {
	return p + strings.ReplaceAll(strings.TrimRight(s, "\n"), "\n", "\n"+p)
}

func truncate(s string, n int) string {
	if len(s) > n {
		return s[:n] + "\n...[truncated]"
	}
	return s
}

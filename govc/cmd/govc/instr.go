package main

// Translation of individual SSA instructions.

import (
	"fmt"
	"go/token"
	"go/types"
	"sort"
	"strings"

	"golang.org/x/tools/go/ssa"
)

func (g *Gen) nopanic(kind string, guard, goal string, pos token.Pos, text string) {
	if !g.safety[kind] {
		g.vc.AssumeAt(guard, goal, "unchecked: "+text)
		return
	}
	name := fmt.Sprintf("%s#nopanic:%s@%d", funcKey(g.fn), kind, g.ordinal("nopanic:"+kind))
	g.vc.Assert(name, "nopanic", guard, goal, g.pos(pos), text)
	g.vc.AssumeAt(guard, goal, "execution continues only if "+text)
}

// refAssume: a reference-like value read from memory or returned by a call was allocated before now.
func (g *Gen) refAssume(t types.Type, term string, h *Heap, guard string) {
	if isRefLike(t) {
		g.vc.AssumeAt(guard, g.model.allocatedBefore(term, g.model.allocNow(h)), "")
	}
	if _, ok := t.Underlying().(*types.Slice); ok {
		g.vc.AssumeAt(guard, And(g.model.wfSlice(term), g.model.allocatedBefore(g.model.slBase(term), g.model.allocNow(h))), "slice value from the program state is well-formed and its array exists")
	}
}

func (g *Gen) instr(in ssa.Instruction, h *Heap, guard string) *Heap {
	m := g.model
	switch x := in.(type) {
	case *ssa.DebugRef:
		return h
	case *ssa.Alloc:
		pt := x.Type().Underlying().(*types.Pointer).Elem()
		r, h2 := m.alloc(h, guard, typeName(pt))
		g.setVal(x, r)
		g.unreachableFresh(h, pt, r, guard)
		return g.zeroInit(h2, pt, r)
	case *ssa.FieldAddr, *ssa.IndexAddr:
		// addresses are resolved at their use (load/store/escape)
		if ia, ok := x.(*ssa.IndexAddr); ok {
			g.indexCheck(ia, h, guard)
		}
		return h
	case *ssa.UnOp:
		return g.unop(x, h, guard)
	case *ssa.BinOp:
		g.binop(x, guard)
		return h
	case *ssa.Store:
		return g.store(x.Addr, g.val(x.Val), x.Val.Type(), h, guard, x.Pos())
	case *ssa.Call:
		return g.call(x, x.Common(), h, guard)
	case *ssa.Go:
		return g.goStmt(x, h, guard)
	case *ssa.Defer:
		d := &deferred{call: x, guard: guard}
		for _, a := range x.Call.Args {
			d.args = append(d.args, g.val(a))
		}
		if x.Call.Value != nil {
			d.recvOrFn = g.val(x.Call.Value)
		}
		g.defers = append(g.defers, d)
		return h
	case *ssa.RunDefers:
		for i := len(g.defers) - 1; i >= 0; i-- {
			d := g.defers[i]
			if !blockReaches(d.call.Block(), x.Block()) {
				continue // registered on a path that cannot lead here
			}
			cond := And(guard, d.guard)
			hc := g.callCommon(nil, &d.call.Call, d.args, d.recvOrFn, h, cond, d.call.Pos())
			if d.guard == guard || d.guard == "true" {
				h = hc
			} else {
				h = g.vc.JoinHeaps([]heapEdge{{d.guard, hc}, {Not(d.guard), h}})
			}
		}
		return h
	case *ssa.Return:
		g.doReturn(x, h, guard)
		return h
	case *ssa.If, *ssa.Jump:
		return h
	case *ssa.Panic:
		if g.contract.Flags["may_panic"] == "" {
			name := fmt.Sprintf("%s#nopanic:explicit@%d", funcKey(g.fn), g.ordinal("nopanic:explicit"))
			g.vc.Assert(name, "nopanic", guard, "false", g.pos(x.Pos()), "explicit panic is unreachable")
		}
		return h
	case *ssa.Phi:
		return h
	case *ssa.MakeInterface:
		g.defVal(x, m.mkIface(x.X.Type(), g.val(x.X)))
		return h
	case *ssa.ChangeInterface:
		g.setVal(x, g.val(x.X))
		return h
	case *ssa.ChangeType:
		g.setVal(x, g.val(x.X))
		return h
	case *ssa.Convert:
		g.convert(x)
		return h
	case *ssa.TypeAssert:
		return g.typeAssert(x, h, guard)
	case *ssa.Extract:
		tup, ok := g.tuples[x.Tuple]
		if !ok || x.Index >= len(tup) {
			g.errorf("extract from unknown tuple %s", x.Tuple.Name())
			g.freshVal(x)
			return h
		}
		g.setVal(x, tup[x.Index])
		return h
	case *ssa.MakeMap:
		mt := x.Type().Underlying().(*types.Map)
		r, h2 := m.alloc(h, guard, "map")
		g.setVal(x, r)
		ks := sortOf(mt.Key())
		dn := mapDomVar(mt)
		ds := ArrSort(SInt, ArrSort(ks, SBool))
		d := h2.Get(dn, ds)
		return h2.Set(dn, ds, Sto(d, r, fmt.Sprintf("((as const (Array %s Bool)) false)", ks)))
	case *ssa.MakeChan:
		r, h2 := m.alloc(h, guard, "chan")
		g.setVal(x, r)
		return h2
	case *ssa.MakeSlice:
		et := x.Type().Underlying().(*types.Slice).Elem()
		ln, cp := g.val(x.Len), g.val(x.Cap)
		g.nopanic("slice", guard, And(App("<=", "0", ln), App("<=", ln, cp)), x.Pos(), "make: 0 <= len <= cap")
		base, h2 := m.alloc(h, guard, "array")
		s := m.mkSlice(base, "0", ln, cp)
		g.setVal(x, s)
		es := elemSort(et)
		name := elemVar(et)
		srt := ArrSort(SInt, ArrSort(SInt, es))
		arr := h2.Get(name, srt)
		return h2.Set(name, srt, Sto(arr, base, fmt.Sprintf("((as const (Array Int %s)) %s)", es, m.zeroVal(et))))
	case *ssa.MakeClosure:
		r, h2 := m.alloc(h, guard, "closure")
		g.setVal(x, r)
		g.closures[x] = x
		if fn, ok := x.Fn.(*ssa.Function); ok {
			key := funcKey(fn)
			g.vc.Declare("closfn", []Sort{SInt}, SInt)
			g.vc.Def(Eq(App("closfn", r), g.fnTag(key)))
			for i, b := range x.Bindings {
				if i < len(fn.FreeVars) {
					g.vc.Def(Eq(g.closBind(key, fn.FreeVars[i].Name(), r), g.val(b)))
				}
			}
		}
		return h2
	case *ssa.Slice:
		return g.sliceOp(x, h, guard)
	case *ssa.Field:
		st, tn, _ := structOf(x.X.Type())
		f := st.Field(x.Field)
		g.defVal(x, m.valProj(tn, f.Name(), sortOf(f.Type()), g.val(x.X)))
		return h
	case *ssa.Index:
		// array value or string indexing: uninterpreted
		g.defVal(x, g.uninterp("index."+typeName(x.X.Type()), []string{g.val(x.X), g.val(x.Index)}, []Sort{sortOf(x.X.Type()), SInt}, sortOf(x.Type())))
		return h
	case *ssa.Lookup:
		return g.lookup(x, h, guard)
	case *ssa.MapUpdate:
		mt := x.Map.Type().Underlying().(*types.Map)
		mp := g.val(x.Map)
		g.nopanic("nilmap", guard, Not(Eq(mp, "0")), x.Pos(), "assignment to entry in non-nil map")
		return m.mapSet(h, mt, mp, g.val(x.Key), g.val(x.Value))
	case *ssa.Range:
		return g.rangeInit(x, h, guard)
	case *ssa.Next:
		return g.next(x, h, guard)
	case *ssa.Select:
		return g.selectStmt(x, h, guard)
	case *ssa.Send:
		h = g.interference(h, guard, "channel send")
		if _, ok := g.specs.Ghosts["sends"]; ok {
			cur := h.Get("G.sends", SInt)
			h = h.Set("G.sends", SInt, App("+", cur, "1"))
		}
		return h
	}
	g.errorf("unsupported instruction %T in %s", in, funcKey(g.fn))
	if v, ok := in.(ssa.Value); ok {
		g.freshVal(v)
	}
	return h
}

func (g *Gen) zeroInit(h *Heap, t types.Type, addr string) *Heap {
	m := g.model
	if st, tn, ok := structOf(t); ok && isStruct(t) {
		for i := 0; i < st.NumFields(); i++ {
			f := st.Field(i)
			if isStruct(f.Type()) {
				h = g.zeroInit(h, f.Type(), m.subAddr(tn, f.Name(), addr))
				continue
			}
			h = m.fieldStore(h, st, tn, i, addr, m.zeroVal(f.Type()))
		}
		return h
	}
	if at, ok := t.Underlying().(*types.Array); ok {
		es := elemSort(at.Elem())
		name := elemVar(at.Elem())
		srt := ArrSort(SInt, ArrSort(SInt, es))
		arr := h.Get(name, srt)
		return h.Set(name, srt, Sto(arr, addr, fmt.Sprintf("((as const (Array Int %s)) %s)", es, m.zeroVal(at.Elem()))))
	}
	s := sortOf(t)
	name := cellVar(t)
	arr := h.Get(name, ArrSort(SInt, s))
	return h.Set(name, ArrSort(SInt, s), Sto(arr, addr, m.zeroVal(t)))
}

func (g *Gen) indexCheck(x *ssa.IndexAddr, h *Heap, guard string) {
	if pa, ok := x.X.Type().Underlying().(*types.Pointer); ok {
		if at, ok := pa.Elem().Underlying().(*types.Array); ok {
			if _, isConst := x.Index.(*ssa.Const); !isConst {
				i := g.val(x.Index)
				g.nopanic("index", guard, And(App("<=", "0", i), App("<", i, fmt.Sprint(at.Len()))), x.Pos(), "array index in range")
			}
		}
	}
	if _, ok := x.X.Type().Underlying().(*types.Slice); ok {
		i := g.val(x.Index)
		g.nopanic("index", guard, And(App("<=", "0", i), App("<", i, g.model.slLen(g.val(x.X)))), x.Pos(), "index in range")
	}
}

// load reads through a pointer-valued SSA value.
// guardCheck: a field annotated `guarded_by=<lock field of the same struct>` is only read or written while that lock
// is held by the executing goroutine (or inside an object the function allocated itself, which nobody else can see).
func (g *Gen) guardCheck(a *ssa.FieldAddr, h *Heap, guard string, what string, pos token.Pos) {
	st, tn, ok := structOf(a.X.Type())
	if !ok {
		return
	}
	f := st.Field(a.Field)
	ann := g.specs.FieldAnn[tn+"."+f.Name()]
	if ann == nil || ann["guarded_by"] == "" || g.contract.Flags["noguard"] != "" {
		return
	}
	if _, ok := g.specs.Ghosts["held"]; !ok {
		return
	}
	lockName := ann["guarded_by"]
	li := -1
	for i := 0; i < st.NumFields(); i++ {
		if st.Field(i).Name() == lockName {
			li = i
		}
	}
	if li < 0 {
		g.errorf("guarded_by: %s has no field %s", tn, lockName)
		return
	}
	base := g.val(a.X)
	lock := g.model.subAddr(tn, lockName, base)
	held := Sel(h.Get("G.held", ArrSort(SInt, SBool)), lock)
	fresh := Not(g.model.allocatedBefore(base, g.model.allocNow(g.entry)))
	name := fmt.Sprintf("%s#guard:%s.%s@%d", funcKey(g.fn), tn, f.Name(), g.ordinal("guard:"+tn+"."+f.Name()))
	g.vc.Assert(name, "guard", guard, Or(held, fresh), g.pos(pos), what+" of "+tn+"."+f.Name()+" only while "+lockName+" is held")
}

func (g *Gen) load(ptr ssa.Value, h *Heap, guard string) string {
	m := g.model
	if fa, ok := ptr.(*ssa.FieldAddr); ok {
		g.guardCheck(fa, h, guard, "read", fa.Pos())
	}
	pt := ptr.Type().Underlying().(*types.Pointer).Elem()
	switch a := ptr.(type) {
	case *ssa.FieldAddr:
		st, tn, _ := structOf(a.X.Type())
		v := m.fieldLoad(h, st, tn, a.Field, g.val(a.X))
		if v.Addr {
			return m.structLoad(h, v.Ty, v.T)
		}
		return v.T
	case *ssa.IndexAddr:
		if sl, ok := a.X.Type().Underlying().(*types.Slice); ok {
			if isStruct(sl.Elem()) {
				g.vc.abstract("slice of structs: element read as an immutable value")
			}
			return m.slElem(h, sl.Elem(), g.val(a.X), g.val(a.Index))
		}
		if pa, ok := a.X.Type().Underlying().(*types.Pointer); ok {
			if at, ok := pa.Elem().Underlying().(*types.Array); ok {
				es := elemSort(at.Elem())
				arr := h.Get(elemVar(at.Elem()), ArrSort(SInt, ArrSort(SInt, es)))
				return Sel(Sel(arr, g.val(a.X)), g.val(a.Index))
			}
		}
		g.vc.abstract("indexing through pointer to array: uninterpreted")
		return g.vc.Fresh("arrelem", sortOf(pt))
	}
	if isStruct(pt) {
		return m.structLoad(h, pt, g.val(ptr))
	}
	if fv, ok := ptr.(*ssa.FreeVar); ok && g.constCapture(fv) {
		return g.constCaptureVal(fv, pt)
	}
	s := sortOf(pt)
	arr := h.Get(cellVar(pt), ArrSort(SInt, s))
	return Sel(arr, g.val(ptr))
}

func (g *Gen) store(ptr ssa.Value, val string, vt types.Type, h *Heap, guard string, pos token.Pos) *Heap {
	m := g.model
	pt := ptr.Type().Underlying().(*types.Pointer).Elem()
	switch a := ptr.(type) {
	case *ssa.FieldAddr:
		g.guardCheck(a, h, guard, "write", pos)
		st, tn, _ := structOf(a.X.Type())
		if g.vc.constVars[fieldVar(tn, st.Field(a.Field).Name())] && g.contract.Flags["constructor"] == "" {
			// a const field may only be written inside an object this function allocated itself
			name := fmt.Sprintf("%s#frame:const:%s.%s@%d", funcKey(g.fn), tn, st.Field(a.Field).Name(), g.ordinal("const:"+tn+"."+st.Field(a.Field).Name()))
			g.vc.Assert(name, "frame", guard, Not(g.model.allocatedBefore(g.val(a.X), g.model.allocNow(g.entry))), g.pos(pos), "field declared const is only initialised in a fresh object")
		}
		return m.fieldStore(h, st, tn, a.Field, g.val(a.X), val)
	case *ssa.IndexAddr:
		if sl, ok := a.X.Type().Underlying().(*types.Slice); ok {
			return m.slElemStore(h, sl.Elem(), g.val(a.X), g.val(a.Index), val)
		}
		if pa, ok := a.X.Type().Underlying().(*types.Pointer); ok {
			if at, ok := pa.Elem().Underlying().(*types.Array); ok {
				es := elemSort(at.Elem())
				name := elemVar(at.Elem())
				srt := ArrSort(SInt, ArrSort(SInt, es))
				arr := h.Get(name, srt)
				base := g.val(a.X)
				return h.Set(name, srt, Sto(arr, base, Sto(Sel(arr, base), g.val(a.Index), val)))
			}
		}
		g.vc.abstract("store through pointer to array element: not modelled")
		return h
	}
	if isStruct(pt) {
		_, tn, _ := structOf(pt)
		return m.structStore(h, pt, tn, g.val(ptr), val)
	}
	s := sortOf(pt)
	name := cellVar(pt)
	arr := h.Get(name, ArrSort(SInt, s))
	return h.Set(name, ArrSort(SInt, s), Sto(arr, g.val(ptr), val))
}

func (g *Gen) unop(x *ssa.UnOp, h *Heap, guard string) *Heap {
	switch x.Op {
	case token.MUL:
		t := g.load(x.X, h, guard)
		sym := g.defVal(x, t)
		g.refAssume(x.Type(), sym, h, guard)
		// a value read from a heap variable that has not changed since entry existed at entry
		if fa, ok := x.X.(*ssa.FieldAddr); ok && isRefLike(x.Type()) {
			st, tn, _ := structOf(fa.X.Type())
			f := st.Field(fa.Field)
			if !isStruct(f.Type()) {
				name := fieldVar(tn, f.Name())
				srt := ArrSort(SInt, sortOf(f.Type()))
				if h.Get(name, srt) == g.entry.Get(name, srt) {
					g.vc.AssumeAt(guard, Or(g.model.allocatedBefore(sym, g.model.allocNow(g.entry)), Not(g.model.allocatedBefore(g.val(fa.X), g.model.allocNow(g.entry)))), "read from an unmodified field of an object that existed at entry")
				}
			}
		}
		return h
	case token.NOT:
		g.defVal(x, Not(g.val(x.X)))
	case token.SUB:
		if isFloat(x.Type()) {
			g.defVal(x, g.uninterp("f.neg", []string{g.val(x.X)}, []Sort{SInt}, SInt))
		} else {
			g.defVal(x, App("-", g.val(x.X)))
		}
	case token.XOR:
		g.defVal(x, g.uninterp("bits.not", []string{g.val(x.X)}, []Sort{SInt}, SInt))
	case token.ARROW:
		// channel receive: blocking, interference point
		h = g.interference(h, guard, "channel receive")
		ch := g.val(x.X)
		if x.CommaOk {
			v := g.vc.Fresh("recv", sortOf(x.Type().(*types.Tuple).At(0).Type()))
			ok := g.vc.Fresh("recvok", SBool)
			g.tuples[x] = []string{v, ok}
		} else {
			g.freshVal(x)
		}
		g.chanRecvFacts(ch, h, guard)
		return g.recvEffects(ch, h, "true")
	default:
		g.errorf("unsupported unary operator %s", x.Op)
		g.freshVal(x)
	}
	return h
}

func (g *Gen) binop(x *ssa.BinOp, guard string) {
	a, b := g.val(x.X), g.val(x.Y)
	t := x.X.Type()
	switch {
	case isString(t):
		g.vc.ensureStrBase()
		switch x.Op {
		case token.ADD:
			g.defVal(x, App("scat", a, b))
		case token.EQL:
			g.defVal(x, Eq(a, b))
		case token.NEQ:
			g.defVal(x, Not(Eq(a, b)))
		default:
			lt := g.uninterp("slt", []string{a, b}, []Sort{SStr, SStr}, SBool)
			gt := g.uninterp("slt", []string{b, a}, []Sort{SStr, SStr}, SBool)
			switch x.Op {
			case token.LSS:
				g.defVal(x, lt)
			case token.GTR:
				g.defVal(x, gt)
			case token.LEQ:
				g.defVal(x, Not(gt))
			case token.GEQ:
				g.defVal(x, Not(lt))
			default:
				g.freshVal(x)
			}
		}
	case isBool(t):
		switch x.Op {
		case token.EQL:
			g.defVal(x, Eq(a, b))
		case token.NEQ:
			g.defVal(x, Not(Eq(a, b)))
		case token.AND, token.LAND:
			g.defVal(x, And(a, b))
		case token.OR, token.LOR:
			g.defVal(x, Or(a, b))
		default:
			g.freshVal(x)
		}
	case isFloat(t):
		op := map[token.Token]string{token.ADD: "f.add", token.SUB: "f.sub", token.MUL: "f.mul", token.QUO: "f.div"}[x.Op]
		if op != "" {
			g.defVal(x, g.uninterp(op, []string{a, b}, []Sort{SInt, SInt}, SInt))
			return
		}
		cmp := map[token.Token]string{token.LSS: "f.lt", token.LEQ: "f.le", token.GTR: "f.gt", token.GEQ: "f.ge", token.EQL: "f.eq", token.NEQ: "f.ne"}[x.Op]
		if cmp != "" {
			g.defVal(x, g.uninterp(cmp, []string{a, b}, []Sort{SInt, SInt}, SBool))
			return
		}
		g.freshVal(x)
	case isStruct(t):
		switch x.Op {
		case token.EQL:
			g.defVal(x, g.model.structValEq(t, a, b))
		case token.NEQ:
			g.defVal(x, Not(g.model.structValEq(t, a, b)))
		default:
			g.freshVal(x)
		}
	default:
		switch x.Op {
		case token.ADD:
			g.overflowCheck(x, App("+", a, b), guard)
			g.defVal(x, App("+", a, b))
		case token.SUB:
			g.overflowCheck(x, App("-", a, b), guard)
			g.defVal(x, App("-", a, b))
		case token.MUL:
			g.overflowCheck(x, App("*", a, b), guard)
			g.defVal(x, App("*", a, b))
		case token.QUO:
			g.nopanic("div", guard, Not(Eq(b, "0")), x.Pos(), "division by non-zero")
			g.defVal(x, g.goDiv(a, b))
		case token.REM:
			g.nopanic("div", guard, Not(Eq(b, "0")), x.Pos(), "modulo by non-zero")
			g.defVal(x, g.goMod(a, b))
		case token.EQL:
			g.defVal(x, Eq(a, b))
		case token.NEQ:
			g.defVal(x, Not(Eq(a, b)))
		case token.LSS:
			g.defVal(x, App("<", a, b))
		case token.LEQ:
			g.defVal(x, App("<=", a, b))
		case token.GTR:
			g.defVal(x, App(">", a, b))
		case token.GEQ:
			g.defVal(x, App(">=", a, b))
		default:
			g.vc.abstract("bit operation " + x.Op.String() + " treated as uninterpreted")
			g.defVal(x, g.uninterp("bits."+mangle(x.Op.String()), []string{a, b}, []Sort{SInt, SInt}, SInt))
		}
	}
}

func (g *Gen) convert(x *ssa.Convert) {
	from, to := x.X.Type(), x.Type()
	v := g.val(x.X)
	switch {
	case isInteger(from) && isInteger(to):
		g.setVal(x, v) // machine arithmetic treated as mathematical (listed assumption)
	case sortOf(from) == sortOf(to) && sortOf(to) == SStr:
		g.setVal(x, v)
	case isPointer(from) || isPointer(to) || from.Underlying() == to.Underlying():
		if sortOf(from) == sortOf(to) {
			g.setVal(x, v)
			return
		}
		fallthrough
	default:
		fn := "conv." + typeName(from) + ".to." + typeName(to)
		g.defVal(x, g.uninterp(fn, []string{v}, []Sort{sortOf(from)}, sortOf(to)))
	}
}

func (g *Gen) typeAssert(x *ssa.TypeAssert, h *Heap, guard string) *Heap {
	m := g.model
	iv := g.val(x.X)
	if types.IsInterface(x.AssertedType) {
		// interface-to-interface: succeeds iff dynamic type implements; modelled as unknown
		ok := g.vc.Fresh("taok", SBool)
		if x.CommaOk {
			g.tuples[x] = []string{Ite(ok, iv, "0"), ok}
		} else {
			g.nopanic("typeassert", guard, ok, x.Pos(), "interface conversion succeeds")
			g.setVal(x, iv)
		}
		return h
	}
	isT := And(Not(Eq(iv, "0")), Eq(App("dyntype", iv), m.typeTag(x.AssertedType)))
	m.mkIface(x.AssertedType, m.zeroVal(x.AssertedType))
	payload := m.unbox(x.AssertedType, iv)
	if x.CommaOk {
		okSym := g.vc.Fresh("taok", SBool)
		g.vc.Def(Eq(okSym, isT))
		g.tuples[x] = []string{Ite(okSym, payload, m.zeroVal(x.AssertedType)), okSym}
	} else {
		g.nopanic("typeassert", guard, isT, x.Pos(), "type assertion succeeds")
		g.defVal(x, payload)
	}
	return h
}

func (g *Gen) sliceOp(x *ssa.Slice, h *Heap, guard string) *Heap {
	m := g.model
	sv := g.val(x.X)
	switch u := x.X.Type().Underlying().(type) {
	case *types.Slice:
		lo, hi := "0", m.slLen(sv)
		if x.Low != nil {
			lo = g.val(x.Low)
		}
		if x.High != nil {
			hi = g.val(x.High)
		}
		cp := m.slCap(sv)
		mx := cp
		if x.Max != nil {
			mx = g.val(x.Max)
		}
		g.nopanic("slice", guard, And(App("<=", "0", lo), App("<=", lo, hi), App("<=", hi, mx), App("<=", mx, cp)), x.Pos(),
			"slice bounds 0 <= low <= high <= cap")
		s := m.mkSlice(m.slBase(sv), App("+", m.slOff(sv), lo), App("-", hi, lo), App("-", mx, lo))
		g.setVal(x, s)
	case *types.Basic: // string
		g.vc.ensureStrBase()
		lo, hi := "0", App("slen", sv)
		if x.Low != nil {
			lo = g.val(x.Low)
		}
		if x.High != nil {
			hi = g.val(x.High)
		}
		g.nopanic("slice", guard, And(App("<=", "0", lo), App("<=", lo, hi), App("<=", hi, App("slen", sv))), x.Pos(), "string slice bounds")
		r := g.defVal(x, g.uninterp("ssub", []string{sv, lo, hi}, []Sort{SStr, SInt, SInt}, SStr))
		g.vc.AssumeAt(guard, Eq(App("slen", r), App("-", hi, lo)), "")
	case *types.Pointer: // *array
		at := u.Elem().Underlying().(*types.Array)
		n := fmt.Sprint(at.Len())
		lo, hi := "0", n
		if x.Low != nil {
			lo = g.val(x.Low)
		}
		if x.High != nil {
			hi = g.val(x.High)
		}
		g.nopanic("slice", guard, And(App("<=", "0", lo), App("<=", lo, hi), App("<=", hi, n)), x.Pos(), "array slice bounds")
		s := m.mkSlice(sv, lo, App("-", hi, lo), App("-", n, lo))
		g.setVal(x, s)
	default:
		g.errorf("unsupported slice operand %s", x.X.Type())
		g.freshVal(x)
	}
	return h
}

func (g *Gen) lookup(x *ssa.Lookup, h *Heap, guard string) *Heap {
	m := g.model
	mt, ok := x.X.Type().Underlying().(*types.Map)
	if !ok {
		// string index
		g.freshVal(x)
		return h
	}
	mp, k := g.val(x.X), g.val(x.Index)
	has := m.mapHas(h, mt, mp, k)
	v := Ite(has, m.mapGet(h, mt, mp, k), m.zeroVal(mt.Elem()))
	if x.CommaOk {
		vs := g.vc.Fresh("lookup", sortOf(mt.Elem()))
		g.vc.Def(Eq(vs, v))
		oks := g.vc.Fresh("lookupok", SBool)
		g.vc.Def(Eq(oks, has))
		g.tuples[x] = []string{vs, oks}
		g.refAssume(mt.Elem(), vs, h, guard)
	} else {
		sym := g.defVal(x, v)
		g.refAssume(mt.Elem(), sym, h, guard)
	}
	return h
}

// ---------- map range ----------

func (g *Gen) rangeInit(x *ssa.Range, h *Heap, guard string) *Heap {
	mt, ok := x.X.Type().Underlying().(*types.Map)
	if !ok {
		g.vc.abstract("range over string: abstracted")
		g.setVal(x, "0")
		return h
	}
	idx := len(g.ranges) + 1
	ri := &rangeInfo{instr: x, mapType: mt, mapTerm: g.val(x.X), idx: idx}
	ks := sortOf(mt.Key())
	ri.seenVar = fmt.Sprintf("Seen.%d", idx)
	ri.seenSort = ArrSort(ks, SBool)
	ri.domStart = g.vc.Fresh("domstart", ri.seenSort)
	g.vc.Def(Eq(ri.domStart, g.model.mapDom(h, mt, ri.mapTerm)))
	g.ranges[x] = ri
	g.setVal(x, "0")
	// attach to the loop whose header contains the Next
	for _, ref := range *x.Referrers() {
		if nx, ok := ref.(*ssa.Next); ok {
			if li := g.loops[nx.Block()]; li != nil {
				li.ranges = append(li.ranges, ri)
			}
		}
	}
	return h.Set(ri.seenVar, ri.seenSort, fmt.Sprintf("((as const %s) false)", ri.seenSort))
}

func (g *Gen) next(x *ssa.Next, h *Heap, guard string) *Heap {
	rng, _ := x.Iter.(*ssa.Range)
	ri := g.ranges[rng]
	if ri == nil {
		tt := x.Type().(*types.Tuple)
		g.tuples[x] = []string{g.vc.Fresh("ok", SBool), g.vc.Fresh("k", sortOf(tt.At(1).Type())), g.vc.Fresh("v", sortOf(tt.At(2).Type()))}
		return h
	}
	m := g.model
	mt := ri.mapType
	ks, vs := sortOf(mt.Key()), sortOf(mt.Elem())
	ok := g.vc.Fresh("next.ok", SBool)
	k := g.vc.Fresh("next.k", ks)
	v := g.vc.Fresh("next.v", vs)
	seen := h.Get(ri.seenVar, ri.seenSort)
	dom := m.mapDom(h, mt, ri.mapTerm)
	mpNonNil := Not(Eq(ri.mapTerm, "0"))
	g.vc.AssumeAt(guard, Imp(ok, And(mpNonNil, Sel(dom, k), Not(Sel(seen, k)), Eq(v, m.mapGet(h, mt, ri.mapTerm, k)))), "range yields an unvisited key of the map")
	g.vc.AssumeAt(guard, Imp(Not(ok), fmt.Sprintf("(forall ((k %s)) (! (=> (and %s (select %s k) (select %s k)) (select %s k)) :pattern ((select %s k)) :pattern ((select %s k))))",
		ks, mpNonNil, dom, ri.domStart, seen, seen, dom)), "range ends when every remaining key was visited")
	g.refAssume(mt.Elem(), v, h, And(guard, ok))
	ri.curKey, ri.curKeyTy = k, mt.Key()
	g.tuples[x] = []string{ok, k, v}
	return h.Set(ri.seenVar, ri.seenSort, Ite(ok, Sto(seen, k, "true"), seen))
}

// ---------- interference ----------

// interference: other goroutines may run; fields annotated `shared` and non-monotone ghosts marked shared are havocked.
func (g *Gen) interference(h *Heap, guard string, why string) *Heap {
	var names []string
	for key, ann := range g.specs.FieldAnn {
		if ann["shared"] == "" {
			continue
		}
		// key is Type.field with short package: "app.Process.done"
		i := lastDot(key)
		names = append(names, fieldVar(key[:i], key[i+1:]))
	}
	for _, gd := range g.specs.sortedGhosts() {
		if gd.Kind == "ghost" && gd.Monotone {
			names = append(names, "G."+gd.Name)
		}
	}
	sort.Strings(names)
	if len(names) == 0 {
		return h
	}
	_, hasCause := g.specs.Ghosts["causeOk"]
	if hasCause {
		names = append(names, "G.causeOk")
	}
	h2 := h.HavocVars(names)
	g.assumeMonotone(h, h2, guard, names)
	if hasCause {
		// the cause of a cancellation is fixed by the first cancel: only contexts not yet cancelled can get one
		srt := ArrSort(SInt, SBool)
		c0, k0, k1 := h.Get("G.cancelled", srt), h.Get("G.causeOk", srt), h2.Get("G.causeOk", srt)
		g.vc.AssumeAt(guard, fmt.Sprintf("(forall ((c Int)) (! (=> (select %s c) (= (select %s c) (select %s c))) :pattern ((select %s c))))", c0, k1, k0, k1), "cause of an already cancelled context is fixed")
	}
	return h2
}

func lastDot(s string) int {
	for i := len(s) - 1; i >= 0; i-- {
		if s[i] == '.' {
			return i
		}
	}
	return -1
}

// chanRecvFacts: a completed receive on a channel with a declared readiness fact implies that fact.
// recvEffects: ghost bookkeeping of a completed receive (accumulated timer waits).
func (g *Gen) recvEffects(ch string, h *Heap, cond string) *Heap {
	gs, ok1 := g.specs.Ghosts["slept"]
	gt, ok2 := g.specs.Ghosts["timerDur"]
	if !ok1 || !ok2 || gs.Kind != "ghost" || gt.Kind != "pure" {
		return h
	}
	g.vc.Declare("U.timerDur", []Sort{SInt}, SInt)
	cur := h.Get("G.slept", SInt)
	h = h.Set("G.slept", SInt, Ite(cond, App("+", cur, App("U.timerDur", ch)), cur))
	if _, ok := g.specs.Ghosts["lastWait"]; ok {
		lw := h.Get("G.lastWait", SInt)
		h = h.Set("G.lastWait", SInt, Ite(cond, App("U.timerDur", ch), lw))
	}
	return h
}

func (g *Gen) chanRecvFacts(ch string, h *Heap, guard string) {
	if gd, ok := g.specs.Ghosts["recvImplies"]; ok && gd.Kind == "ghost" {
		// ghost recvImplies(ref) bool: set by contracts that hand out channels (ctx.Done(), time.After)
		srt := ArrSort(SInt, SBool)
		_ = srt
	}
	// Facts are attached through the pure function chanFact(ch) declared in specs: a receive implies chanFact(ch, now).
	if _, ok := g.specs.Defines["recvFact"]; ok {
		env := g.envAt(h, g.blockCur)
		env.vars["ch"] = Val{T: ch, Ty: tRef}
		t, err := env.EvalBool(&ECall{Fn: "recvFact", Args: []Expr{&EIdent{"ch"}}})
		if err == nil {
			g.vc.AssumeAt(guard, t, "receive completed on channel")
		} else {
			g.errorf("recvFact: %v", err)
		}
	}
}

func (g *Gen) selectStmt(x *ssa.Select, h *Heap, guard string) *Heap {
	if x.Blocking {
		h = g.interference(h, guard, "select")
	}
	n := len(x.States)
	idx := g.vc.Fresh("select.idx", SInt)
	lo := "0"
	if !x.Blocking {
		lo = "(- 1)"
	}
	g.vc.AssumeAt(guard, And(App("<=", lo, idx), App("<", idx, fmt.Sprint(n))), "select chooses one case")
	tup := []string{idx, g.vc.Fresh("select.recvok", SBool)}
	for i, st := range x.States {
		if st.Dir == types.RecvOnly {
			et := st.Chan.Type().Underlying().(*types.Chan).Elem()
			tup = append(tup, g.vc.Fresh("select.recv", sortOf(et)))
			g.chanRecvFacts(g.val(st.Chan), h, And(guard, Eq(idx, fmt.Sprint(i))))
			h = g.recvEffects(g.val(st.Chan), h, Eq(idx, fmt.Sprint(i)))
		}
	}
	g.tuples[x] = tup
	return h
}

// blockReaches: b can be reached from a along CFG edges (a == b counts).
func blockReaches(a, b *ssa.BasicBlock) bool {
	seen := map[*ssa.BasicBlock]bool{}
	stack := []*ssa.BasicBlock{a}
	for len(stack) > 0 {
		x := stack[len(stack)-1]
		stack = stack[:len(stack)-1]
		if x == b {
			return true
		}
		if seen[x] {
			continue
		}
		seen[x] = true
		stack = append(stack, x.Succs...)
	}
	return false
}

// unreachableFresh: a freshly allocated object of type T is not yet referenced from anywhere: no pointer field of
// type *T in the repository's structs holds its address (stated for the field variables this VC uses).
func (g *Gen) unreachableFresh(h *Heap, pt types.Type, r string, guard string) {
	if !isStruct(pt) {
		return
	}
	for _, fv := range g.w.pointerFieldsTo(pt) {
		srt, used := g.vc.heapVarSorts[fv]
		if !used {
			continue
		}
		arr := h.Get(fv, srt)
		// only objects that exist now: heap variables of const fields are not versioned and also describe objects
		// that will be created later (which may well point to this one)
		g.vc.AssumeAt(guard, fmt.Sprintf("(forall ((fx Int)) (! (=> (< (root fx) %s) (not (= (select %s fx) %s))) :pattern ((select %s fx))))", g.model.allocNow(h), arr, r, arr), "a fresh object is not referenced by any existing "+fv)
	}
}

// pointerFieldsTo lists the heap variables of struct fields (in the repository's packages) of type *T.
func (w *World) pointerFieldsTo(t types.Type) []string {
	key := typeName(t)
	if w.ptrFields == nil {
		w.ptrFields = map[string][]string{}
		var paths []string
		for path := range w.allPkgs {
			if strings.HasPrefix(path, "github.com/f1bonacc1/process-compose") {
				paths = append(paths, path)
			}
		}
		sort.Strings(paths)
		for _, path := range paths {
			sc := w.allPkgs[path].Scope()
			for _, name := range sc.Names() {
				tn, ok := sc.Lookup(name).(*types.TypeName)
				if !ok {
					continue
				}
				st, stn, ok := structOf(tn.Type())
				if !ok || !isStruct(tn.Type()) {
					continue
				}
				for i := 0; i < st.NumFields(); i++ {
					f := st.Field(i)
					if p, ok := f.Type().Underlying().(*types.Pointer); ok && isStruct(p.Elem()) {
						k := typeName(p.Elem())
						w.ptrFields[k] = append(w.ptrFields[k], fieldVar(stn, f.Name()))
					}
				}
			}
		}
	}
	return w.ptrFields[key]
}

// overflowCheck: in functions whose contract says `flag checked_arith`, every + - * on int / int64 must stay inside the
// 64-bit range (elsewhere machine arithmetic is treated as mathematical, which the evidence lists as an assumption).
func (g *Gen) overflowCheck(x *ssa.BinOp, r string, guard string) {
	if g.contract.Flags["checked_arith"] == "" {
		return
	}
	b, ok := x.Type().Underlying().(*types.Basic)
	if !ok || (b.Kind() != types.Int && b.Kind() != types.Int64) {
		return
	}
	name := fmt.Sprintf("%s#nopanic:overflow@%d", funcKey(g.fn), g.ordinal("nopanic:overflow"))
	g.vc.Assert(name, "nopanic", guard, And(App("<=", "(- 9223372036854775808)", r), App("<=", r, "9223372036854775807")), g.pos(x.Pos()), "no 64-bit overflow in "+x.Op.String())
}

package main

// Sorts, name mangling and per-type helpers for the SMT encoding.

import (
	"fmt"
	"go/types"
	"strings"
)

// Sort is an SMT-LIB sort written out.
type Sort string

const (
	SInt  Sort = "Int"
	SBool Sort = "Bool"
	SStr  Sort = "Str"
)

func ArrSort(k, v Sort) Sort { return Sort(fmt.Sprintf("(Array %s %s)", k, v)) }

// sortOf maps a Go type to the SMT sort of its values.
// Everything that is not a bool or a string is an Int: integers, pointers (Ref), maps, chans,
// funcs, interfaces, struct values (value ids), slices (slice value ids), floats (uninterpreted).
func sortOf(t types.Type) Sort {
	switch u := t.Underlying().(type) {
	case *types.Basic:
		switch {
		case u.Info()&types.IsBoolean != 0:
			return SBool
		case u.Info()&types.IsString != 0:
			return SStr
		}
		return SInt
	}
	return SInt
}

func isStruct(t types.Type) bool {
	_, ok := t.Underlying().(*types.Struct)
	return ok
}

func isPointer(t types.Type) bool {
	_, ok := t.Underlying().(*types.Pointer)
	return ok
}

func isRefLike(t types.Type) bool {
	switch t.Underlying().(type) {
	case *types.Pointer, *types.Map, *types.Chan:
		return true
	}
	return false
}

func isFloat(t types.Type) bool {
	b, ok := t.Underlying().(*types.Basic)
	return ok && b.Info()&types.IsFloat != 0
}

func isInteger(t types.Type) bool {
	b, ok := t.Underlying().(*types.Basic)
	return ok && b.Info()&types.IsInteger != 0
}

func isUnsigned(t types.Type) bool {
	b, ok := t.Underlying().(*types.Basic)
	return ok && b.Info()&types.IsUnsigned != 0
}

func isString(t types.Type) bool {
	b, ok := t.Underlying().(*types.Basic)
	return ok && b.Info()&types.IsString != 0
}

func isBool(t types.Type) bool {
	b, ok := t.Underlying().(*types.Basic)
	return ok && b.Info()&types.IsBoolean != 0
}

// mangle produces an SMT-safe symbol fragment from arbitrary text.
func mangle(s string) string {
	var b strings.Builder
	for _, r := range s {
		switch {
		case r >= 'a' && r <= 'z', r >= 'A' && r <= 'Z', r >= '0' && r <= '9', r == '_', r == '.', r == '$', r == '!':
			b.WriteRune(r)
		case r == '*':
			b.WriteString("ptr.")
		case r == '[':
			b.WriteString("_L")
		case r == ']':
			b.WriteString("R_")
		case r == '/':
			b.WriteString(".")
		case r == ' ':
		default:
			b.WriteString("_")
		}
	}
	return b.String()
}

// shortPkg shortens an import path to its last element (unique enough in this repository and its
// dependencies for symbol names; the full path is kept in the evidence).
func shortPkg(path string) string {
	if i := strings.LastIndex(path, "/"); i >= 0 {
		return path[i+1:]
	}
	return path
}

// typeName gives a stable short name for a type, used in heap-variable names.
func typeName(t types.Type) string {
	switch u := t.(type) {
	case *types.Named:
		o := u.Obj()
		n := o.Name()
		if ta := u.TypeArgs(); ta != nil && ta.Len() > 0 {
			var as []string
			for i := 0; i < ta.Len(); i++ {
				as = append(as, typeName(ta.At(i)))
			}
			n += "_L" + strings.Join(as, "_") + "R_"
		}
		if o.Pkg() != nil {
			return shortPkg(o.Pkg().Path()) + "." + n
		}
		return n
	case *types.Alias:
		return typeName(types.Unalias(u))
	case *types.Pointer:
		return "ptr." + typeName(u.Elem())
	case *types.Slice:
		return "sl." + typeName(u.Elem())
	case *types.Array:
		return fmt.Sprintf("arr%d.%s", u.Len(), typeName(u.Elem()))
	case *types.Map:
		return "map." + typeName(u.Key()) + "." + typeName(u.Elem())
	case *types.Chan:
		return "chan." + typeName(u.Elem())
	case *types.Basic:
		return u.Name()
	case *types.Interface:
		if u.Empty() {
			return "any"
		}
		return "iface"
	case *types.Signature:
		return "func"
	case *types.Struct:
		return mangle("struct" + fmt.Sprint(u.NumFields()))
	case *types.Tuple:
		return "tuple"
	}
	return mangle(t.String())
}

// structOf returns the struct type and its naming type for t (value or pointer to struct).
func structOf(t types.Type) (*types.Struct, string, bool) {
	if p, ok := t.Underlying().(*types.Pointer); ok {
		t = p.Elem()
	}
	s, ok := t.Underlying().(*types.Struct)
	if !ok {
		return nil, "", false
	}
	return s, typeName(t), true
}

// fieldVar is the name of the heap array holding field f of struct type named tn.
func fieldVar(tn string, f string) string { return "F." + tn + "." + f }

// subFn is the name of the injective function giving the address of an embedded struct field.
func subFn(tn string, f string) string { return "sub." + tn + "." + f }

// valFn is the projection of field f out of a struct *value* id.
func valFn(tn string, f string) string { return "V." + tn + "." + f }

func cellVar(t types.Type) string { return "Cell." + typeName(t) }
func elemVar(t types.Type) string { return "Elem." + sortTag(t) }

// maps of different Go types never alias: one domain/value variable per (key sort, element type)
func mapDomVar(m *types.Map) string {
	return "MapDom." + string(sortTagS(sortOf(m.Key()))) + "." + sortTag(m.Elem())
}
func mapValVar(m *types.Map) string {
	return "MapVal." + string(sortTagS(sortOf(m.Key()))) + "." + sortTag(m.Elem())
}

// sortTag: element types are separated by Go type for struct values and by sort otherwise.
func sortTag(t types.Type) string {
	if isStruct(t) {
		return typeName(t)
	}
	switch t.Underlying().(type) {
	case *types.Pointer, *types.Map, *types.Slice, *types.Interface, *types.Chan, *types.Signature:
		return typeName(t)
	}
	return sortTagS(sortOf(t))
}

func sortTagS(s Sort) string {
	switch s {
	case SInt:
		return "Int"
	case SBool:
		return "Bool"
	case SStr:
		return "Str"
	}
	return mangle(string(s))
}

// zeroTerm is the zero value of a non-struct type.
func zeroOfSort(s Sort) string {
	switch s {
	case SBool:
		return "false"
	case SStr:
		return "sempty"
	}
	return "0"
}

// App builds an s-expression application.
func App(op string, args ...string) string {
	if len(args) == 0 {
		return op
	}
	return "(" + op + " " + strings.Join(args, " ") + ")"
}

func And(xs ...string) string {
	var ys []string
	for _, x := range xs {
		if x == "true" {
			continue
		}
		if x == "false" {
			return "false"
		}
		ys = append(ys, x)
	}
	switch len(ys) {
	case 0:
		return "true"
	case 1:
		return ys[0]
	}
	return App("and", ys...)
}

func Or(xs ...string) string {
	var ys []string
	for _, x := range xs {
		if x == "false" {
			continue
		}
		if x == "true" {
			return "true"
		}
		ys = append(ys, x)
	}
	switch len(ys) {
	case 0:
		return "false"
	case 1:
		return ys[0]
	}
	return App("or", ys...)
}

func Not(x string) string {
	switch x {
	case "true":
		return "false"
	case "false":
		return "true"
	}
	if strings.HasPrefix(x, "(not ") {
		return x[5 : len(x)-1]
	}
	return App("not", x)
}

func Imp(a, b string) string {
	if a == "true" {
		return b
	}
	if b == "true" || a == "false" {
		return "true"
	}
	return App("=>", a, b)
}

func Eq(a, b string) string {
	if a == b {
		return "true"
	}
	return App("=", a, b)
}

func Ite(c, a, b string) string {
	if c == "true" {
		return a
	}
	if c == "false" {
		return b
	}
	if a == b {
		return a
	}
	return App("ite", c, a, b)
}

func Sel(a, i string) string    { return App("select", a, i) }
func Sto(a, i, v string) string { return App("store", a, i, v) }
func IntLit(n int64) string {
	if n < 0 {
		return fmt.Sprintf("(- %d)", -n)
	}
	return fmt.Sprintf("%d", n)
}

package main

// Evaluation of contract expressions to SMT terms.

import (
	"fmt"
	"go/constant"
	"go/types"
	"strconv"
	"strings"
)

type Env struct {
	g      *Gen
	pkg    *types.Package
	vars   map[string]Val
	now    *Heap
	old    *Heap
	locals func(name string) (Val, bool)              // source-level locals (loop invariants)
	seen   func(n int, k Val, h *Heap) (string, bool) // seen-set of map-range loop n (0 = current)
	depth  int
}

func (e *Env) clone() *Env {
	c := *e
	c.vars = map[string]Val{}
	for k, v := range e.vars {
		c.vars[k] = v
	}
	return &c
}

type evalErr string

func (e *Env) fail(format string, a ...interface{}) {
	panic(evalErr(fmt.Sprintf(format, a...)))
}

// EvalBool evaluates a clause to a Bool term.
func (e *Env) EvalBool(x Expr) (t string, err error) {
	defer func() {
		if r := recover(); r != nil {
			if ee, ok := r.(evalErr); ok {
				err = fmt.Errorf("%s", string(ee))
				return
			}
			panic(r)
		}
	}()
	v := e.eval(x)
	if v.Sort() != SBool {
		e.fail("clause is not boolean: %s", exprString(x))
	}
	return v.T, nil
}

func (e *Env) EvalVal(x Expr) (v Val, err error) {
	defer func() {
		if r := recover(); r != nil {
			if ee, ok := r.(evalErr); ok {
				err = fmt.Errorf("%s", string(ee))
				return
			}
			panic(r)
		}
	}()
	return e.eval(x), nil
}

var tInt = types.Typ[types.Int]
var tBool = types.Typ[types.Bool]
var tString = types.Typ[types.String]
var tRef = types.Typ[types.UnsafePointer]

func (e *Env) m() *Model { return e.g.model }

func (e *Env) eval(x Expr) Val {
	switch x := x.(type) {
	case *EInt:
		return Val{T: x.V, Ty: tInt}
	case *EStr:
		return Val{T: e.g.vc.StrLit(x.V), Ty: tString}
	case *EBool:
		if x.V {
			return Val{T: "true", Ty: tBool}
		}
		return Val{T: "false", Ty: tBool}
	case *EIdent:
		return e.ident(x.Name)
	case *EUn:
		v := e.eval(x.X)
		switch x.Op {
		case "!":
			return Val{T: Not(v.T), Ty: tBool}
		case "-":
			return Val{T: App("-", v.T), Ty: v.Ty}
		}
	case *EBin:
		return e.binary(x)
	case *ESel:
		return e.selector(x)
	case *EIndex:
		b := e.eval(x.X)
		i := e.eval(x.I)
		switch u := b.Ty.Underlying().(type) {
		case *types.Map:
			return Val{T: e.m().mapGet(e.now, u, b.T, i.T), Ty: u.Elem()}
		case *types.Slice:
			return Val{T: e.m().slElem(e.now, u.Elem(), b.T, i.T), Ty: u.Elem()}
		}
		e.fail("cannot index %s", exprString(x.X))
	case *ECall:
		return e.call(x)
	case *EQuant:
		c := e.clone()
		var bs []string
		for _, b := range x.Vars {
			ty := e.g.resolveType(b.Type, e.pkg)
			if ty == nil {
				e.fail("unknown type %q in binder", b.Type)
			}
			sym := fmt.Sprintf("q.%s.%d", b.Name, e.g.vc.fresh)
			e.g.vc.fresh++
			bs = append(bs, fmt.Sprintf("(%s %s)", sym, sortOf(ty)))
			c.vars[b.Name] = Val{T: sym, Ty: ty}
		}
		body := c.eval(x.Body)
		q := "exists"
		if x.Forall {
			q = "forall"
		}
		bt := body.T
		if len(x.Triggers) > 0 {
			var ps []string
			for _, tr := range x.Triggers {
				var ts []string
				for _, te := range tr {
					ts = append(ts, c.eval(te).T)
				}
				ps = append(ps, ":pattern ("+strings.Join(ts, " ")+")")
			}
			bt = "(! " + bt + " " + strings.Join(ps, " ") + ")"
		}
		return Val{T: fmt.Sprintf("(%s (%s) %s)", q, strings.Join(bs, " "), bt), Ty: tBool}
	}
	e.fail("cannot evaluate %s", exprString(x))
	return Val{}
}

func (e *Env) ident(name string) Val {
	if v, ok := e.vars[name]; ok {
		return v
	}
	if name == "idx" && e.locals != nil {
		if v, ok := e.locals("idx"); ok {
			return v
		}
	}
	if name == "nil" {
		return Val{T: "0", Ty: tRef}
	}
	if e.locals != nil {
		if v, ok := e.locals(name); ok {
			return v
		}
	}
	// package-level object
	if e.pkg != nil {
		if obj := e.pkg.Scope().Lookup(name); obj != nil {
			return e.object(obj)
		}
	}
	if obj := types.Universe.Lookup(name); obj != nil {
		if c, ok := obj.(*types.Const); ok {
			return e.constVal(c.Val(), c.Type())
		}
	}
	// zero-argument ghost / define
	if _, ok := e.g.specs.Ghosts[name]; ok {
		return e.call(&ECall{Fn: name})
	}
	if _, ok := e.g.specs.Defines[name]; ok {
		return e.call(&ECall{Fn: name})
	}
	e.fail("unknown identifier %q", name)
	return Val{}
}

func (e *Env) object(obj types.Object) Val {
	switch o := obj.(type) {
	case *types.Const:
		return e.constVal(o.Val(), o.Type())
	case *types.Var:
		// package-level variable: a cell at a fixed global address
		addr := e.g.globalAddr(o)
		if isStruct(o.Type()) {
			return Val{T: addr, Ty: o.Type(), Addr: true}
		}
		s := sortOf(o.Type())
		arr := e.now.Get(cellVar(o.Type()), ArrSort(SInt, s))
		return Val{T: Sel(arr, addr), Ty: o.Type()}
	}
	e.fail("unsupported package-level object %s", obj.Name())
	return Val{}
}

func (e *Env) constVal(c constant.Value, t types.Type) Val {
	switch c.Kind() {
	case constant.Bool:
		if constant.BoolVal(c) {
			return Val{T: "true", Ty: t}
		}
		return Val{T: "false", Ty: t}
	case constant.String:
		return Val{T: e.g.vc.StrLit(constant.StringVal(c)), Ty: t}
	case constant.Int:
		if i, ok := constant.Int64Val(c); ok {
			if types.Identical(t, types.Typ[types.UntypedInt]) || types.Identical(t, types.Typ[types.UntypedRune]) {
				t = tInt
			}
			return Val{T: IntLit(i), Ty: t}
		}
	}
	e.fail("unsupported constant %s", c.String())
	return Val{}
}

func (e *Env) binary(x *EBin) Val {
	switch x.Op {
	case "&&":
		return Val{T: And(e.eval(x.L).T, e.eval(x.R).T), Ty: tBool}
	case "||":
		return Val{T: Or(e.eval(x.L).T, e.eval(x.R).T), Ty: tBool}
	case "==>":
		return Val{T: Imp(e.eval(x.L).T, e.eval(x.R).T), Ty: tBool}
	case "<==>":
		return Val{T: Eq(e.eval(x.L).T, e.eval(x.R).T), Ty: tBool}
	case "in":
		k := e.eval(x.L)
		m := e.eval(x.R)
		mt, ok := m.Ty.Underlying().(*types.Map)
		if !ok {
			e.fail("'in' needs a map: %s", exprString(x.R))
		}
		return Val{T: e.m().mapHas(e.now, mt, m.T, k.T), Ty: tBool}
	}
	l, r := e.eval(x.L), e.eval(x.R)
	switch x.Op {
	case "==", "!=":
		var t string
		if isStruct(l.Ty) && !l.Addr && isStruct(r.Ty) && !r.Addr {
			t = e.m().structValEq(l.Ty, l.T, r.T)
		} else {
			if l.Sort() != r.Sort() {
				e.fail("comparison of different sorts in %s (%s vs %s)", exprString(x), l.Sort(), r.Sort())
			}
			t = Eq(l.T, r.T)
		}
		if x.Op == "!=" {
			t = Not(t)
		}
		return Val{T: t, Ty: tBool}
	case "<", "<=", ">", ">=":
		if l.Sort() != SInt || r.Sort() != SInt {
			e.fail("ordering on non-integers in %s", exprString(x))
		}
		return Val{T: App(x.Op, l.T, r.T), Ty: tBool}
	case "+":
		if l.Sort() == SStr {
			e.g.vc.ensureStrBase()
			return Val{T: App("scat", l.T, r.T), Ty: l.Ty}
		}
		return Val{T: App("+", l.T, r.T), Ty: l.Ty}
	case "-", "*":
		return Val{T: App(x.Op, l.T, r.T), Ty: l.Ty}
	case "/":
		return Val{T: e.g.goDiv(l.T, r.T), Ty: l.Ty}
	case "%":
		return Val{T: e.g.goMod(l.T, r.T), Ty: l.Ty}
	}
	e.fail("unknown operator %s", x.Op)
	return Val{}
}

func (e *Env) selector(x *ESel) Val {
	// qualified identifier pkg.Name?
	if id, ok := x.X.(*EIdent); ok {
		if _, isVar := e.vars[id.Name]; !isVar {
			pkg := e.g.importedPkg(e.pkg, id.Name)
			if pkg == nil && e.locals == nil {
				pkg = e.g.w.pkgByShort(id.Name)
			} else if pkg == nil {
				if _, isLocal := e.locals(id.Name); !isLocal {
					pkg = e.g.w.pkgByShort(id.Name)
				}
			}
			if pkg != nil {
				isLocal := false
				if e.locals != nil {
					_, isLocal = e.locals(id.Name)
				}
				if !isLocal {
					obj := pkg.Scope().Lookup(x.Name)
					if obj == nil {
						e.fail("%s.%s not found", id.Name, x.Name)
					}
					return e.object(obj)
				}
			}
		}
	}
	b := e.eval(x.X)
	return e.fieldOf(b, x.Name)
}

func (e *Env) fieldOf(b Val, name string) Val {
	t := b.Ty
	obj, index, _ := types.LookupFieldOrMethod(t, true, nil, name)
	if obj == nil && e.pkg != nil {
		obj, index, _ = types.LookupFieldOrMethod(t, true, e.pkg, name)
	}
	if obj == nil {
		// unexported field of another package: search manually
		obj, index = lookupFieldAnyPkg(t, name)
	}
	if _, ok := obj.(*types.Var); !ok || obj == nil {
		e.fail("no field %s in %s", name, t)
	}
	cur := b
	for _, idx := range index {
		cur = e.step(cur, idx)
	}
	return cur
}

func lookupFieldAnyPkg(t types.Type, name string) (types.Object, []int) {
	st, _, ok := structOf(t)
	if !ok {
		return nil, nil
	}
	for i := 0; i < st.NumFields(); i++ {
		if st.Field(i).Name() == name {
			return st.Field(i), []int{i}
		}
	}
	for i := 0; i < st.NumFields(); i++ {
		f := st.Field(i)
		if f.Embedded() {
			if o, idx := lookupFieldAnyPkg(f.Type(), name); o != nil {
				return o, append([]int{i}, idx...)
			}
		}
	}
	return nil, nil
}

// step selects field idx from a pointer-to-struct, struct address or struct value.
func (e *Env) step(b Val, idx int) Val {
	st, tn, ok := structOf(b.Ty)
	if !ok {
		e.fail("field selection on non-struct %s", b.Ty)
	}
	if b.Addr || isPointer(b.Ty) {
		return e.m().fieldLoad(e.now, st, tn, idx, b.T)
	}
	f := st.Field(idx)
	return Val{T: e.m().valProj(tn, f.Name(), sortOf(f.Type()), b.T), Ty: f.Type()}
}

func (e *Env) call(x *ECall) Val {
	switch x.Fn {
	case "old":
		if len(x.Args) != 1 {
			e.fail("old takes one argument")
		}
		c := *e
		c.now = e.old
		return c.eval(x.Args[0])
	case "len":
		v := e.eval(x.Args[0])
		switch u := v.Ty.Underlying().(type) {
		case *types.Slice:
			return Val{T: e.m().slLen(v.T), Ty: tInt}
		case *types.Map:
			return Val{T: e.m().mapCard(e.now, u, v.T), Ty: tInt}
		case *types.Basic:
			if isString(v.Ty) {
				e.g.vc.ensureStrBase()
				return Val{T: App("slen", v.T), Ty: tInt}
			}
		}
		e.fail("len of %s", v.Ty)
	case "cap":
		v := e.eval(x.Args[0])
		return Val{T: e.m().slCap(v.T), Ty: tInt}
	case "ite":
		c, a, b := e.eval(x.Args[0]), e.eval(x.Args[1]), e.eval(x.Args[2])
		return Val{T: Ite(c.T, a.T, b.T), Ty: a.Ty}
	case "fresh":
		v := e.eval(x.Args[0])
		return Val{T: Not(e.m().allocatedBefore(v.T, e.m().allocNow(e.old))), Ty: tBool}
	case "allocated":
		v := e.eval(x.Args[0])
		return Val{T: e.m().allocatedBefore(v.T, e.m().allocNow(e.now)), Ty: tBool}
	case "addr":
		v := e.eval(x.Args[0])
		if !v.Addr && !isPointer(v.Ty) {
			e.fail("addr() of non-addressable value")
		}
		return Val{T: v.T, Ty: tRef}
	case "int", "int64", "int32", "uint", "uint16", "uint32", "uint64", "ref":
		v := e.eval(x.Args[0])
		return Val{T: v.T, Ty: tInt}
	case "seen", "seen1", "seen2", "seen3", "seen4":
		n := 0
		if len(x.Fn) > 4 {
			n, _ = strconv.Atoi(x.Fn[4:])
		}
		if e.seen == nil {
			e.fail("seen() outside a map-range loop")
		}
		k := e.eval(x.Args[0])
		t, ok := e.seen(n, k, e.now)
		if !ok {
			e.fail("seen%d: no such map-range loop", n)
		}
		return Val{T: t, Ty: tBool}
	case "curkey1", "curkey2", "curkey3":
		n, _ := strconv.Atoi(x.Fn[6:])
		if n < 1 || n > len(e.g.loopList) || len(e.g.loopList[n-1].ranges) == 0 || e.g.loopList[n-1].ranges[0].curKey == "" {
			e.fail("%s: loop %d has no current key here", x.Fn, n)
		}
		ri := e.g.loopList[n-1].ranges[0]
		return Val{T: ri.curKey, Ty: ri.curKeyTy}
	case "unchangedOld":
		// unchangedOld("HeapVar"): every cell of an object that existed at function entry is as it was then
		k, ok := x.Args[0].(*EStr)
		if !ok {
			e.fail("unchangedOld(\"heap variable\")")
		}
		srt, known := e.g.vc.heapVarSorts[k.V]
		if !known {
			// the function (and everything it calls) neither reads nor writes the variable: trivially unchanged
			e.g.vc.abstract("unchangedOld(" + k.V + "): the heap variable is not touched by this function")
			return Val{T: "true", Ty: tBool}
		}
		a, b := e.g.entry.Get(k.V, srt), e.now.Get(k.V, srt)
		if a == b {
			return Val{T: "true", Ty: tBool}
		}
		alloc0 := e.m().allocNow(e.g.entry)
		return Val{T: fmt.Sprintf("(forall ((fr Int)) (! (=> (< (root fr) %s) (= (select %s fr) (select %s fr))) :pattern ((select %s fr))))", alloc0, b, a, b), Ty: tBool}
	case "kept":
		// kept("ghost"): the whole ghost is as it was at entry
		k, ok := x.Args[0].(*EStr)
		if !ok {
			e.fail("kept(\"ghost name\")")
		}
		gd, known := e.g.specs.Ghosts[k.V]
		if !known || gd.Kind != "ghost" {
			e.fail("kept: %s is not a ghost", k.V)
		}
		var sorts []Sort
		for _, prm := range gd.Params {
			pt := e.g.resolveType(prm, e.pkg)
			if pt == nil {
				e.fail("kept: cannot resolve %s", prm)
			}
			sorts = append(sorts, sortOf(pt))
		}
		rt := e.g.resolveType(gd.Result, e.pkg)
		if rt == nil {
			e.fail("kept: cannot resolve %s", gd.Result)
		}
		srt := ghostSort(sorts, sortOf(rt))
		a, b := e.old.Get("G."+gd.Name, srt), e.now.Get("G."+gd.Name, srt)
		if a == b {
			return Val{T: "true", Ty: tBool}
		}
		return Val{T: Eq(a, b), Ty: tBool}
	case "fntag":
		k, ok := x.Args[0].(*EStr)
		if !ok {
			e.fail("fntag(\"function key\")")
		}
		if e.g.w.funcs[k.V] == nil {
			e.fail("fntag: unknown function %s", k.V)
		}
		return Val{T: e.g.fnTag(k.V), Ty: tInt}
	case "monotone":
		// monotone("ghost"): every cell of the boolean (or integer) ghost that was set (or had a value) in the
		// pre-state is still set (is not smaller) now; stated with a one-directional pattern like the latch rely
		k, ok := x.Args[0].(*EStr)
		if !ok {
			e.fail("monotone(\"ghost name\")")
		}
		gd, known := e.g.specs.Ghosts[k.V]
		if !known || gd.Kind != "ghost" || len(gd.Params) != 1 {
			e.fail("monotone: %s is not a one-parameter ghost", k.V)
		}
		pt := e.g.resolveType(gd.Params[0], e.pkg)
		rt := e.g.resolveType(gd.Result, e.pkg)
		if pt == nil || rt == nil {
			e.fail("monotone: cannot resolve the types of %s", k.V)
		}
		srt := ghostSort([]Sort{sortOf(pt)}, sortOf(rt))
		a, b := e.old.Get("G."+gd.Name, srt), e.now.Get("G."+gd.Name, srt)
		if a == b {
			return Val{T: "true", Ty: tBool}
		}
		rel := "=>"
		if sortOf(rt) == SInt {
			rel = "<="
		}
		return Val{T: fmt.Sprintf("(forall ((mm %s)) (! (%s (select %s mm) (select %s mm)) :pattern ((select %s mm))))", sortOf(pt), rel, a, b, b), Ty: tBool}
	case "boxed":
		v := e.eval(x.Args[0])
		if v.Addr {
			e.fail("boxed() of a struct in memory is not supported")
		}
		return Val{T: e.m().mkIface(v.Ty, v.T), Ty: types.NewInterfaceType(nil, nil)}
	case "same":
		// same(a, b): struct values equal field by field (also usable on addresses)
		a, b := e.eval(x.Args[0]), e.eval(x.Args[1])
		av, bv := a.T, b.T
		if a.Addr {
			av = e.m().structLoad(e.now, a.Ty, a.T)
		}
		if b.Addr {
			bv = e.m().structLoad(e.now, b.Ty, b.T)
		}
		return Val{T: e.m().structValEq(a.Ty, av, bv), Ty: tBool}
	case "fnof":
		// fnof(f): the tag of the function a function value designates (compare with fntag("pkg.f"))
		v := e.eval(x.Args[0])
		e.g.vc.Declare("closfn", []Sort{SInt}, SInt)
		return Val{T: App("closfn", v.T), Ty: tInt}
	case "isclosure":
		v := e.eval(x.Args[0])
		k, ok := x.Args[1].(*EStr)
		if !ok {
			e.fail("isclosure(f, \"key\")")
		}
		e.g.vc.Declare("closfn", []Sort{SInt}, SInt)
		return Val{T: Eq(App("closfn", v.T), e.g.fnTag(k.V)), Ty: tBool}
	case "captured":
		v := e.eval(x.Args[0])
		k, ok1 := x.Args[1].(*EStr)
		n, ok2 := x.Args[2].(*EStr)
		if !ok1 || !ok2 {
			e.fail("captured(f, \"key\", \"name\")")
		}
		fn := e.g.w.funcs[k.V]
		if fn == nil {
			e.fail("captured: unknown function %s", k.V)
		}
		for _, fv := range fn.FreeVars {
			if fv.Name() == n.V {
				pt := fv.Type().Underlying().(*types.Pointer).Elem()
				cell := e.g.closBind(k.V, n.V, v.T)
				if isStruct(pt) {
					return Val{T: cell, Ty: pt, Addr: true}
				}
				arr := e.now.Get(cellVar(pt), ArrSort(SInt, sortOf(pt)))
				return Val{T: Sel(arr, cell), Ty: pt}
			}
		}
		e.fail("captured: %s has no free variable %s", k.V, n.V)
	case "unbox":
		v := e.eval(x.Args[0])
		k, ok := x.Args[1].(*EStr)
		if !ok {
			e.fail("unbox(x, \"Type\")")
		}
		ty := e.g.resolveType(k.V, e.pkg)
		if ty == nil {
			e.fail("unknown type %s", k.V)
		}
		return Val{T: e.m().unbox(ty, v.T), Ty: ty}
	case "typeis":
		// typeis(iface, "pkg.Type") — dynamic type test via tag name
		v := e.eval(x.Args[0])
		s, ok := x.Args[1].(*EStr)
		if !ok {
			e.fail("typeis(x, \"Type\")")
		}
		ty := e.g.resolveType(s.V, e.pkg)
		if ty == nil {
			e.fail("unknown type %s", s.V)
		}
		return Val{T: And(Not(Eq(v.T, "0")), Eq(App("dyntype", v.T), e.m().typeTag(ty))), Ty: tBool}
	}
	if d, ok := e.g.specs.Defines[x.Fn]; ok {
		if len(d.Params) != len(x.Args) {
			e.fail("%s: wrong number of arguments", x.Fn)
		}
		if e.depth > 20 {
			e.fail("define recursion too deep in %s", x.Fn)
		}
		c := e.clone()
		c.depth = e.depth + 1
		for i, p := range d.Params {
			c.vars[p.Name] = e.eval(x.Args[i])
		}
		return c.eval(d.Body)
	}
	if gd, ok := e.g.specs.Ghosts[x.Fn]; ok {
		if len(gd.Params) != len(x.Args) {
			e.fail("%s: wrong number of arguments (%d, want %d)", x.Fn, len(x.Args), len(gd.Params))
		}
		var args []string
		var sorts []Sort
		for i, a := range x.Args {
			v := e.eval(a)
			pt := e.g.resolveType(gd.Params[i], e.pkg)
			if pt == nil {
				e.fail("ghost %s: unknown parameter type %s", x.Fn, gd.Params[i])
			}
			ps := sortOf(pt)
			if v.Sort() != ps {
				e.fail("ghost %s: argument %d has sort %s, want %s", x.Fn, i, v.Sort(), ps)
			}
			args = append(args, v.T)
			sorts = append(sorts, ps)
		}
		rt := e.g.resolveType(gd.Result, e.pkg)
		if rt == nil {
			e.fail("ghost %s: unknown result type %s", x.Fn, gd.Result)
		}
		rs := sortOf(rt)
		if gd.Kind == "pure" {
			fn := "U." + gd.Name
			e.g.vc.Declare(fn, sorts, rs)
			return Val{T: App(fn, args...), Ty: rt}
		}
		srt := ghostSort(sorts, rs)
		t := e.now.Get("G."+gd.Name, srt)
		for _, a := range args {
			t = Sel(t, a)
		}
		return Val{T: t, Ty: rt}
	}
	e.fail("unknown function %q in contract", x.Fn)
	return Val{}
}

func ghostSort(params []Sort, res Sort) Sort {
	s := res
	for i := len(params) - 1; i >= 0; i-- {
		s = ArrSort(params[i], s)
	}
	return s
}

package main

// VC context: declarations, assumptions, obligations; and the versioned heap.

import (
	"fmt"
	"strings"
)

type Assume struct {
	Guard   string // reach condition under which the assumption was made
	Formula string
	Note    string
}

type Obligation struct {
	Name     string
	Kind     string
	Guard    string // reach condition of the program point
	Goal     string
	NAssumes int // number of assumptions visible (prefix of VC.assumes)
	Pos      string
	Text     string // contract clause text or description
	Func     string

	// results
	Result     string // unsat | sat | unknown | timeout | error
	Backend    string
	Ms         int64
	Model      string
	Query      string
	ModelQuery string            // the query the model was obtained from
	Candidate  bool              // model found after dropping quantified assumptions
	StrLits    map[string]string // string-literal symbol -> text (for replay)
}

type CoverPoint struct {
	Guard      string
	NAssumes   int
	PreAssumes int // assumptions visible before the call
	What       string
}

type VC struct {
	Covers       []CoverPoint
	FuncName     string
	decls        []string
	declSet      map[string]bool
	defs         []string // definitional facts (always included)
	assumes      []Assume
	Obls         []*Obligation
	fresh        int
	strLits      map[string]string // literal -> symbol
	strOrder     []string
	Abstracted   []string // notes: what the translation abstracts for this function
	heapVarSorts map[string]Sort
	constVars    map[string]bool // heap variables of fields declared const: never havocked by frames
	axioms       []axiomDef
}

type axiomDef struct {
	text string
	syms []string
}

// relevantAxioms: the axioms whose uninterpreted symbols occur in the given query text.
func (vc *VC) relevantAxioms(body string) string {
	var b strings.Builder
	for _, ax := range vc.axioms {
		for _, s := range ax.syms {
			if strings.Contains(body, "("+s+" ") {
				b.WriteString("(assert " + ax.text + ")\n")
				break
			}
		}
	}
	return b.String()
}

func NewVC(fn string) *VC {
	vc := &VC{FuncName: fn, declSet: map[string]bool{}, strLits: map[string]string{}, heapVarSorts: map[string]Sort{}, constVars: map[string]bool{}}
	return vc
}

func (vc *VC) Declare(sym string, args []Sort, res Sort) {
	if vc.declSet[sym] {
		return
	}
	vc.declSet[sym] = true
	var as []string
	for _, a := range args {
		as = append(as, string(a))
	}
	vc.decls = append(vc.decls, fmt.Sprintf("(declare-fun %s (%s) %s)", sym, strings.Join(as, " "), res))
}

func (vc *VC) Fresh(prefix string, s Sort) string {
	vc.fresh++
	sym := fmt.Sprintf("%s!%d", mangle(prefix), vc.fresh)
	vc.Declare(sym, nil, s)
	return sym
}

func (vc *VC) Def(f string) {
	if f != "true" {
		vc.defs = append(vc.defs, f)
	}
}

func (vc *VC) AssumeAt(guard, f, note string) {
	if f == "true" {
		return
	}
	vc.assumes = append(vc.assumes, Assume{guard, f, note})
}

func (vc *VC) Assert(name, kind, guard, goal, pos, text string) *Obligation {
	o := &Obligation{Name: name, Kind: kind, Guard: guard, Goal: goal, NAssumes: len(vc.assumes), Pos: pos, Text: text, Func: vc.FuncName}
	vc.Obls = append(vc.Obls, o)
	return o
}

func (vc *VC) abstract(note string) {
	for _, a := range vc.Abstracted {
		if a == note {
			return
		}
	}
	vc.Abstracted = append(vc.Abstracted, note)
}

// StrLit returns the symbol of a string literal.
func (vc *VC) StrLit(s string) string {
	if s == "" {
		vc.ensureStrBase()
		return "sempty"
	}
	if sym, ok := vc.strLits[s]; ok {
		return sym
	}
	vc.ensureStrBase()
	sym := fmt.Sprintf("str!%d", len(vc.strLits))
	vc.strLits[s] = sym
	vc.strOrder = append(vc.strOrder, s)
	vc.Declare(sym, nil, SStr)
	return sym
}

func (vc *VC) ensureStrBase() {
	if vc.declSet["sempty"] {
		return
	}
	vc.Declare("sempty", nil, SStr)
	vc.Declare("slen", []Sort{SStr}, SInt)
	vc.Declare("scat", []Sort{SStr, SStr}, SStr)
}

// Prelude returns declarations + definitional facts + string-literal axioms.
func (vc *VC) Prelude() string {
	var b strings.Builder
	b.WriteString("(declare-sort Str 0)\n")
	for _, d := range vc.decls {
		b.WriteString(d)
		b.WriteString("\n")
	}
	if vc.declSet["sempty"] {
		b.WriteString("(assert (= (slen sempty) 0))\n")
		b.WriteString("(assert (forall ((s Str)) (! (and (>= (slen s) 0) (=> (= (slen s) 0) (= s sempty))) :pattern ((slen s)))))\n")
		b.WriteString("(assert (forall ((a Str) (b Str)) (! (= (slen (scat a b)) (+ (slen a) (slen b))) :pattern ((scat a b)))))\n")
		b.WriteString("(assert (forall ((a Str)) (! (= (scat a sempty) a) :pattern ((scat a sempty)))))\n")
		b.WriteString("(assert (forall ((a Str)) (! (= (scat sempty a) a) :pattern ((scat sempty a)))))\n")
	}
	if len(vc.strOrder) > 0 {
		syms := []string{"sempty"}
		for _, s := range vc.strOrder {
			syms = append(syms, vc.strLits[s])
			b.WriteString(fmt.Sprintf("(assert (= (slen %s) %d)) ; %q\n", vc.strLits[s], len(s), s))
		}
		b.WriteString("(assert (distinct " + strings.Join(syms, " ") + "))\n")
	}
	for _, d := range vc.defs {
		b.WriteString("(assert " + d + ")\n")
	}
	return b.String()
}

// Query builds the SMT-LIB text that is unsat iff the obligation holds.
func (vc *VC) Query(o *Obligation) string {
	var b strings.Builder
	pre := vc.Prelude()
	b.WriteString(pre)
	var relText strings.Builder
	relText.WriteString(pre)
	for _, a := range vc.assumes[:o.NAssumes] {
		relText.WriteString(a.Formula)
	}
	relText.WriteString(o.Goal)
	b.WriteString(vc.relevantAxioms(relText.String()))
	for _, a := range vc.assumes[:o.NAssumes] {
		b.WriteString("(assert " + Imp(a.Guard, a.Formula) + ")")
		if a.Note != "" {
			b.WriteString(" ; " + strings.ReplaceAll(a.Note, "\n", " "))
		}
		b.WriteString("\n")
	}
	b.WriteString("(assert " + o.Guard + ")\n")
	decls, body := skolemizeGoal(o.Goal)
	b.WriteString(decls)
	b.WriteString("(assert (not " + body + "))\n")
	b.WriteString("(check-sat)\n")
	return b.String()
}

// skolemizeGoal: a goal (forall (binders) body) is refuted by one counterexample: the bound variables (whose
// names are unique in the query) become fresh constants. Solvers do this internally, but only after
// preprocessing; doing it here makes the ground terms of the goal available to E-matching from the start.
func skolemizeGoal(goal string) (string, string) {
	decls := ""
	for strings.HasPrefix(goal, "(forall (") {
		// binder list
		i := len("(forall (")
		depth := 1
		j := i
		for ; j < len(goal) && depth > 0; j++ {
			switch goal[j] {
			case '(':
				depth++
			case ')':
				depth--
			}
		}
		binders := goal[i : j-1]
		rest := strings.TrimSpace(goal[j : len(goal)-1])
		// each binder is (name sort), sort possibly parenthesised
		k := 0
		ok := true
		var ds []string
		for k < len(binders) {
			for k < len(binders) && binders[k] == ' ' {
				k++
			}
			if k >= len(binders) {
				break
			}
			if binders[k] != '(' {
				ok = false
				break
			}
			d := 0
			st := k
			for ; k < len(binders); k++ {
				if binders[k] == '(' {
					d++
				} else if binders[k] == ')' {
					d--
					if d == 0 {
						k++
						break
					}
				}
			}
			one := binders[st+1 : k-1]
			sp := strings.Index(one, " ")
			if sp < 0 {
				ok = false
				break
			}
			ds = append(ds, fmt.Sprintf("(declare-fun %s () %s)\n", one[:sp], strings.TrimSpace(one[sp+1:])))
		}
		if !ok {
			break
		}
		// strip a pattern annotation: (! body :pattern ...)
		if strings.HasPrefix(rest, "(! ") {
			inner := rest[3:]
			d := 0
			end := -1
			for x := 0; x < len(inner); x++ {
				if inner[x] == '(' {
					d++
				} else if inner[x] == ')' {
					d--
					if d == 0 {
						end = x + 1
						break
					}
				}
			}
			if end < 0 {
				break
			}
			if inner[0] != '(' {
				// atom body
				end = strings.Index(inner, " ")
			}
			rest = inner[:end]
		}
		decls += strings.Join(ds, "")
		goal = rest
	}
	return decls, goal
}

// CoverQuery: satisfiable iff the program point is reachable under the assumptions (vacuity guard).
func (vc *VC) CoverQuery(guard string, nAssumes int) string {
	var b strings.Builder
	pre := vc.Prelude()
	b.WriteString(pre)
	var body strings.Builder
	body.WriteString(pre)
	for _, a := range vc.assumes[:nAssumes] {
		body.WriteString(a.Formula)
	}
	b.WriteString(vc.relevantAxioms(body.String()))
	for _, a := range vc.assumes[:nAssumes] {
		b.WriteString("(assert " + Imp(a.Guard, a.Formula) + ")\n")
	}
	b.WriteString("(assert " + guard + ")\n")
	b.WriteString("(check-sat)\n")
	return b.String()
}

// ---------- heap ----------

// Heap is a persistent (immutable) versioned store from heap-variable names to terms.
type Heap struct {
	id       int
	vals     map[string]string
	parents  []heapEdge
	havoc    bool            // true: unknown variables are fresh (entry state or havoc-all)
	havocSet map[string]bool // variables that are fresh at this node (others come from the parent)
	keepSet  map[string]bool // for havoc-all nodes: variables that keep the parent's value
	vc       *VC
}

type heapEdge struct {
	cond string
	h    *Heap
}

var heapCounter int

func (vc *VC) NewRootHeap() *Heap {
	// the entry heap always has id 0 so that its variables have stable names (X@0) usable in replay templates
	return &Heap{id: 0, vals: map[string]string{}, havoc: true, vc: vc}
}

func (h *Heap) child() *Heap {
	heapCounter++
	return &Heap{id: heapCounter, vals: map[string]string{}, parents: []heapEdge{{"true", h}}, vc: h.vc}
}

// Set returns a new heap where variable name has value t.
func (h *Heap) Set(name string, s Sort, t string) *Heap {
	h.vc.noteHeapVar(name, s)
	c := h.child()
	if len(t) > 40 {
		// name the new heap value so that later terms stay small (definitional: the symbol is fresh)
		sym := fmt.Sprintf("%s@%d", mangle(name), c.id)
		h.vc.Declare(sym, nil, s)
		h.vc.Def(Eq(sym, t))
		t = sym
	}
	c.vals[name] = t
	return c
}

func (vc *VC) noteHeapVar(name string, s Sort) {
	if old, ok := vc.heapVarSorts[name]; ok && old != s {
		panic(fmt.Sprintf("heap variable %s used at sorts %s and %s", name, old, s))
	}
	vc.heapVarSorts[name] = s
}

// Get resolves the current term of a heap variable.
func (h *Heap) Get(name string, s Sort) string {
	h.vc.noteHeapVar(name, s)
	if t, ok := h.vals[name]; ok {
		return t
	}
	var t string
	switch {
	case h.havoc && (h.keepSet[name] || h.vc.constVars[name]) && len(h.parents) == 1:
		t = h.parents[0].h.Get(name, s)
	case h.havocSet[name] && h.vc.constVars[name] && len(h.parents) == 1:
		t = h.parents[0].h.Get(name, s)
	case h.havoc || len(h.parents) == 0 || h.havocSet[name]:
		t = fmt.Sprintf("%s@%d", mangle(name), h.id)
		h.vc.Declare(t, nil, s)
	case len(h.parents) == 1:
		t = h.parents[0].h.Get(name, s)
	default:
		var vs []string
		same := true
		for i, p := range h.parents {
			v := p.h.Get(name, s)
			vs = append(vs, v)
			if i > 0 && v != vs[0] {
				same = false
			}
		}
		if same {
			t = vs[0]
		} else {
			t = fmt.Sprintf("%s@%d", mangle(name), h.id)
			h.vc.Declare(t, nil, s)
			for i, p := range h.parents {
				h.vc.Def(Imp(p.cond, Eq(t, vs[i])))
			}
		}
	}
	h.vals[name] = t
	return t
}

// Join merges heaps along mutually exclusive edge conditions.
func (vc *VC) JoinHeaps(edges []heapEdge) *Heap {
	if len(edges) == 1 {
		return edges[0].h
	}
	heapCounter++
	return &Heap{id: heapCounter, vals: map[string]string{}, parents: edges, vc: vc}
}

// HavocAll returns a heap in which every variable is unknown.
func (h *Heap) HavocAll() *Heap {
	heapCounter++
	return &Heap{id: heapCounter, vals: map[string]string{}, havoc: true, parents: []heapEdge{{"true", h}}, vc: h.vc}
}

// HavocAllBut forgets everything except the listed variables.
func (h *Heap) HavocAllBut(keep []string) *Heap {
	heapCounter++
	ks := map[string]bool{}
	for _, k := range keep {
		ks[k] = true
	}
	return &Heap{id: heapCounter, vals: map[string]string{}, havoc: true, keepSet: ks, parents: []heapEdge{{"true", h}}, vc: h.vc}
}

// HavocVars returns a heap where the listed variables are fresh and everything else is kept.
func (h *Heap) HavocVars(names []string) *Heap {
	c := h.child()
	c.havocSet = map[string]bool{}
	for _, n := range names {
		c.havocSet[n] = true
	}
	return c
}

package main

func checkMain(args []string) int { return 0 }

package main

// Property check driver: obligations of the functions a property lists, lock comparison,
// known findings, replay, evidence.

import (
	"encoding/json"
	"flag"
	"fmt"
	"golang.org/x/tools/go/ssa"
	"os"
	"os/exec"
	"path/filepath"
	"regexp"
	"sort"
	"strconv"
	"strings"
	"sync"
	"time"
)

type PropConfig struct {
	Functions          []string            `json:"functions"`      // canonical keys of functions under contract
	NotApplicable      []string            `json:"not_applicable"` // clauses declared N/A (informational, copied to evidence)
	Assumptions        []string            `json:"assumptions"`
	Bounded            []string            `json:"bounded"` // bounded stand-ins: file names under /verif/bounded (Go test sources run through an overlay)
	Exclude            []string            `json:"exclude"` // obligations of the listed functions that belong to another property (not claimed here)
	Level              string              `json:"level"`   // evidence level override ("other" for properties decided mainly by bounded stand-ins)
	Explanation        string              `json:"explanation"`
	Callers            map[string][]string `json:"callers"`             // callee -> the only functions allowed to call it (package sweep)
	Guards             bool                `json:"guards"`              // lock-guard obligations are part of this property (C20); elsewhere they are not generated into the claim
	CalleeClosure      bool                `json:"callee_closure"`      // extend Functions by the contract-bearing functions they transitively call
	Unstable           []string            `json:"unstable"`            // obligations whose proof depends on solver luck: never admitted to the lock (UNDECIDED, not a violation, when they fail)
	AssumedObligations map[string]string   `json:"assumed_obligations"` // obligation -> why it is assumed instead of discharged (reported as an assumption, never counted)
}

type KnownFinding struct {
	Property   string `json:"property"`
	Obligation string `json:"obligation"`
	What       string `json:"what"`
	Status     string `json:"status"` // known | fixed
	Commit     string `json:"commit,omitempty"`
}

type oblRecord struct {
	Name    string `json:"name"`
	Kind    string `json:"kind"`
	Result  string `json:"result"`
	Backend string `json:"backend"`
	Ms      int64  `json:"ms"`
	Pos     string `json:"pos,omitempty"`
	Clause  string `json:"clause,omitempty"`
}

func readJSON(path string, v interface{}) error {
	data, err := os.ReadFile(path)
	if err != nil {
		return err
	}
	return json.Unmarshal(data, v)
}

func checkMain(args []string) int {
	fs := flag.NewFlagSet("check", flag.ExitOnError)
	tier := fs.String("tier", "", "quick|thorough")
	updateLock := fs.Bool("update-lock", false, "rewrite the lock entry of this property from the current run (manual step, never part of a registered command)")
	replayPath := fs.String("replay", "", "re-run the replay recorded in this file")
	if len(args) == 0 {
		fmt.Fprintln(os.Stderr, "usage: govc check <Cnn> [--tier quick|thorough]")
		return 2
	}
	prop := args[0]
	fs.Parse(args[1:])
	if *tier == "" {
		*tier = os.Getenv("VERIF_TIER")
	}
	if *tier == "" {
		*tier = "quick"
	}
	seed := 0
	if s := os.Getenv("VERIF_SEED"); s != "" {
		seed, _ = strconv.Atoi(s)
	}
	if *replayPath != "" {
		return replayMain(prop, *replayPath)
	}
	start := time.Now()
	var props map[string]*PropConfig
	if err := readJSON(filepath.Join(verifDir, "specs", "properties.json"), &props); err != nil {
		fmt.Fprintln(os.Stderr, "cannot read properties.json:", err)
		return 2
	}
	pc := props[prop]
	if pc == nil {
		fmt.Fprintln(os.Stderr, "unknown property", prop)
		return 2
	}
	var lock map[string][]string
	_ = readJSON(filepath.Join(verifDir, "baseline", "obligations.lock"), &lock)
	_ = readJSON(filepath.Join(verifDir, "baseline", "params.lock"), &baselineParams)
	_ = readJSON(filepath.Join(verifDir, "baseline", "loops.lock"), &baselineLoops)
	_ = readJSON(filepath.Join(verifDir, "baseline", "locals.lock"), &baselineLocals)
	for _, n := range lock[prop] {
		lockedNow[n] = true
	}
	var known []KnownFinding
	_ = readJSON(filepath.Join(verifDir, "known_findings.json"), &known)

	for _, k := range known {
		if k.Status == "known" {
			knownFailing[k.Obligation] = true
		}
	}
	for _, ex := range pc.Exclude {
		knownFailing[ex] = true
	}
	sort.Strings(pc.Assumptions)
	timeout := 10
	all := false
	if *tier == "thorough" {
		timeout = 60
		all = true
	}

	replayDir := filepath.Join(outDir, "replay", prop)
	os.RemoveAll(replayDir)
	os.MkdirAll(replayDir, 0o755)

	violations := 0
	report := func(obl string, what string, replay string, confirmed bool) {
		violations++
		line := fmt.Sprintf("VIOLATION property=%s replay=%s", prop, replay)
		if !confirmed {
			line += " no-failing-input-found"
		}
		fmt.Println(line)
		fmt.Printf("  obligation: %s\n  %s\n", obl, what)
	}

	w, err := loadWorld([]string{"./src/..."})
	if err != nil {
		// the tree does not load: nothing can be verified; this is a violation of every obligation
		rp := filepath.Join(replayDir, "load-failure.txt")
		os.WriteFile(rp, []byte("obligation: <load>\n"+err.Error()+"\n"), 0o644)
		report("<load>", "repository or contracts failed to load: "+err.Error(), rp, false)
		writeEvidence(prop, *tier, seed, nil, nil, nil, pc, time.Since(start), violations, nil, w)
		return 1
	}

	if pc.CalleeClosure {
		// modular verification checks a caller against the callee's contract: the proof of the property is only complete
		// if the callees' contracts are discharged too. The listed functions are extended by every function of the
		// repository they (transitively) call, spawn or defer that has a contract of its own (trusted ones are assumptions).
		pc.Functions = calleeClosure(w, pc.Functions)
	}
	inFuncs := map[string]bool{}
	for _, f := range pc.Functions {
		inFuncs[f] = true
	}
	// an assumed obligation is a call-site precondition of some function; with call-closed function lists that function is
	// verified by every property that reaches it, so the assumption applies (and is reported) there too
	if pc.AssumedObligations == nil {
		pc.AssumedObligations = map[string]string{}
	}
	for name, other := range props {
		if name == prop || name == "ALLX" {
			continue
		}
		for ex, why := range other.AssumedObligations {
			if !inFuncs[strings.SplitN(ex, "#", 2)[0]] {
				continue
			}
			if _, ok := pc.AssumedObligations[ex]; !ok {
				pc.AssumedObligations[ex] = why
			}
		}
	}
	for ex, why := range pc.AssumedObligations {
		knownFailing[ex] = true
		pc.Exclude = append(pc.Exclude, ex)
		pc.Assumptions = append(pc.Assumptions, "ASSUMED obligation (not discharged) "+ex+": "+why)
	}
	sort.Strings(pc.Assumptions)
	if *updateLock {
		// the tree IS the baseline: bind by the names and ordinals as written; the recorded shapes of this property's
		// functions are replaced below
		for _, key := range pc.Functions {
			delete(baselineParams, key)
			delete(baselineLoops, key)
			delete(baselineLocals, key)
		}
	}
	var records []oblRecord
	var allObls []*Obligation
	var abstracted []string
	funcsSeen := map[string]bool{}
	var genErrors []string
	type fr struct {
		key string
		res *funcResult
		err error
	}
	results := make([]fr, len(pc.Functions))
	// generation is sequential (shared counters); solving is parallel inside verifyFunc
	for i, key := range pc.Functions {
		r, err := w.verifyFunc(key, timeout, all, "")
		results[i] = fr{key, r, err}
	}
	for _, r := range results {
		if r.err != nil {
			genErrors = append(genErrors, r.err.Error())
			continue
		}
		funcsSeen[r.key] = true
		for _, e := range r.res.Errors {
			genErrors = append(genErrors, r.key+": "+e)
		}
		for _, a := range r.res.VC.Abstracted {
			abstracted = append(abstracted, r.key+": "+a)
		}
		for _, o := range r.res.VC.Obls {
			skip := false
			for _, ex := range pc.Exclude {
				if o.Name == ex {
					skip = true
				}
			}
			if skip || (o.Kind == "guard" && !pc.Guards) {
				continue
			}
			allObls = append(allObls, o)
			records = append(records, oblRecord{o.Name, o.Kind, o.Result, o.Backend, o.Ms, o.Pos, o.Text})
		}
	}

	// package sweep: the listed callees are called only from the listed functions
	sweepViolations := callersSweep(w, pc)

	// vacuity guard: every function's obligations must be reachable under its assumptions
	var vcs []vcAndKey
	for _, r := range results {
		if r.res != nil {
			vcs = append(vcs, vcAndKey{r.key, r.res.VC})
		}
	}
	vacuous := vacuityCheck(vcs, timeout)

	current := map[string]*Obligation{}
	for _, o := range allObls {
		current[o.Name] = o
	}
	if *updateLock {
		if lock == nil {
			lock = map[string][]string{}
		}
		var names []string
		for _, o := range allObls {
			unstable := false
			for _, u := range pc.Unstable {
				if u == o.Name {
					unstable = true
				}
			}
			if unstable {
				fmt.Printf("not admitted to the lock (declared unstable): %s\n", o.Name)
				continue
			}
			if o.Result == "unsat" && o.Ms < int64(timeout)*250 {
				names = append(names, o.Name)
			} else if o.Result == "unsat" {
				// slow = unstable = future false alarm: not admitted (reported as UNDECIDED if it ever fails)
				fmt.Printf("not admitted to the lock (discharged in %d ms, limit %d): %s\n", o.Ms, timeout*250, o.Name)
			}
		}
		sort.Strings(names)
		lock[prop] = names
		for _, key := range pc.Functions {
			if fn := w.funcs[key]; fn != nil {
				var ps []string
				for _, p := range fn.Params {
					ps = append(ps, p.Name())
				}
				baselineParams[key] = ps
			}
		}
		for _, key := range pc.Functions {
			if sigs, ok := currentLoopSigs[key]; ok {
				baselineLoops[key] = sigs
			}
			if fn := w.funcs[key]; fn != nil {
				baselineLocals[key] = localNames(fn)
			}
		}
		if ldata, err := json.MarshalIndent(baselineLoops, "", " "); err == nil {
			os.WriteFile(filepath.Join(verifDir, "baseline", "loops.lock"), append(ldata, '\n'), 0o644)
		}
		if ldata, err := json.MarshalIndent(baselineLocals, "", " "); err == nil {
			os.WriteFile(filepath.Join(verifDir, "baseline", "locals.lock"), append(ldata, '\n'), 0o644)
		}
		if pdata, err := json.MarshalIndent(baselineParams, "", " "); err == nil {
			os.WriteFile(filepath.Join(verifDir, "baseline", "params.lock"), append(pdata, '\n'), 0o644)
		}
		data, _ := json.MarshalIndent(lock, "", " ")
		os.MkdirAll(filepath.Join(verifDir, "baseline"), 0o755)
		os.WriteFile(filepath.Join(verifDir, "baseline", "obligations.lock"), append(data, '\n'), 0o644)
		fmt.Printf("lock updated: %d obligations for %s\n", len(names), prop)
	}

	isKnown := func(name string) *KnownFinding {
		for i := range known {
			k := &known[i]
			// a known finding is an unproved contract clause of a function: it is reported by every property whose
			// (callee-closed) function list contains that function, not only by the property it was found under
			if k.Obligation == name && k.Status == "known" {
				return k
			}
		}
		return nil
	}
	knownHit := []string{}
	locked := map[string]bool{}
	for _, n := range lock[prop] {
		locked[n] = true
		lockedNow[n] = true
	}
	for _, e := range genErrors {
		rp := filepath.Join(replayDir, "generation-error.txt")
		f, _ := os.OpenFile(rp, os.O_APPEND|os.O_CREATE|os.O_WRONLY, 0o644)
		fmt.Fprintf(f, "obligation: <contract-binding>\n%s\n", e)
		f.Close()
		report("<contract-binding>", "contract could not be bound to the code: "+e, rp, false)
	}
	for _, v := range sweepViolations {
		rp := filepath.Join(replayDir, "callers.txt")
		f, _ := os.OpenFile(rp, os.O_APPEND|os.O_CREATE|os.O_WRONLY, 0o644)
		fmt.Fprintf(f, "obligation: <callers>\n%s\n", v)
		f.Close()
		report("<callers>", v, rp, false)
	}
	for _, v := range vacuous {
		rp := filepath.Join(replayDir, "vacuity.txt")
		f, _ := os.OpenFile(rp, os.O_APPEND|os.O_CREATE|os.O_WRONLY, 0o644)
		fmt.Fprintf(f, "obligation: <vacuity>\n%s\n", v)
		f.Close()
		report("<vacuity>", v, rp, false)
	}
	// locked obligations must exist and be discharged
	for _, n := range lock[prop] {
		o := current[n]
		if o == nil {
			if k := isKnown(n); k != nil {
				continue
			}
			// Only obligations that come from a contract clause (ensures, loop invariant) have a stable
			// identity. Safety, call-precondition and frame obligations are named after program points
			// (the n-th index operation, the n-th call of f, a heap variable the body writes): a refactoring that
			// removes the program point removes the obligation, which is not a violation.
			if !(strings.Contains(n, "#ensures:") || (strings.Contains(n, "#invariant-") && !strings.Contains(n, "~"))) {
				continue
			}
			if loopDropped(n) {
				continue
			}
			rp := filepath.Join(replayDir, mangle(n)+".txt")
			os.WriteFile(rp, []byte("obligation: "+n+"\nstatus: missing — the function, clause or program point this obligation was generated from no longer exists\n"), 0o644)
			report(n, "obligation proved on the baseline is no longer generated (target missing)", rp, false)
		}
	}
	discharged := 0
	counted := 0
	for _, o := range allObls {
		if o.Result == "unsat" {
			discharged++
			counted++
			continue
		}
		if k := isKnown(o.Name); k != nil {
			fmt.Printf("KNOWN-FINDING: property=%s %s %s\n", prop, o.Name, k.What)
			knownHit = append(knownHit, o.Name)
			continue
		}
		counted++
		if !locked[o.Name] && o.Result != "sat" && o.Kind == "frame" && lockedFunc(locked, o.Name) && contractRelevant(w, o.Name) {
			// A function that was verified on the baseline now writes a heap variable it did not write then, outside
			// its declared frame, and that variable is state the contracts speak about: its callers were verified
			// against the frame. (A write to state no contract mentions - a new field, a cache - stays UNDECIDED.)
			rp := filepath.Join(replayDir, mangle(o.Name)+".txt")
			os.WriteFile(rp, []byte("obligation: "+o.Name+"\nstatus: the function did not write this heap variable on the baseline; it now does, outside its declared assigns clause, and the variable is mentioned by contracts\nsolver: "+o.Result+" ("+o.Backend+")\n"+o.Text+"\n"), 0o644)
			report(o.Name, fmt.Sprintf("%s [frame] at %s: new write to contract-relevant state outside the declared frame (%s)", o.Text, o.Pos, o.Result), rp, false)
			continue
		}
		if !locked[o.Name] && o.Result != "sat" {
			fmt.Fprintf(os.Stderr, "UNDECIDED %s (%s, not in the baseline lock)\n", o.Name, o.Result)
			counted--
			continue
		}
		rp, confirmed := doReplay(w, prop, o, replayDir)
		what := fmt.Sprintf("%s [%s] at %s: solver verdict %s (%s)", o.Text, o.Kind, o.Pos, o.Result, o.Backend)
		report(o.Name, what, rp, confirmed)
	}
	// bounded stand-ins (labelled bounded, never counted as proved)
	boundedResults = nil
	for _, bf := range pc.Bounded {
		br := runBounded(bf, *tier)
		boundedResults = append(boundedResults, br)
		if br.Violation {
			rp := filepath.Join(replayDir, "bounded-"+mangle(bf)+".txt")
			os.WriteFile(rp, []byte("obligation: <bounded:"+bf+">\n"+br.Output+"\n"), 0o644)
			report("<bounded:"+bf+">", "bounded stand-in found a counterexample on the real code: "+firstLine(br.Output, "GOVC-BOUNDED-VIOLATION"), rp, true)
		} else if !br.Ok {
			rp := filepath.Join(replayDir, "bounded-"+mangle(bf)+".txt")
			os.WriteFile(rp, []byte("obligation: <bounded:"+bf+">\n"+br.Output+"\n"), 0o644)
			report("<bounded:"+bf+">", "bounded stand-in did not run to completion", rp, false)
		}
	}
	writeEvidence(prop, *tier, seed, records, abstracted, knownHit, pc, time.Since(start), violations, allObls, w)
	fmt.Printf("%s %s: %d obligations, %d discharged, %d known findings, %d violations, %.1fs\n", prop, *tier, counted, discharged, len(knownHit), violations, time.Since(start).Seconds())
	if violations > 0 {
		return 1
	}
	return 0
}

type vcAndKey struct {
	key string
	vc  *VC
}

// vacuityCheck: for each function, the assumptions visible at each obligation must be satisfiable together
// with the obligation's guard (otherwise the obligation holds vacuously).
func vacuityCheck(vcs []vcAndKey, timeout int) []string {
	var out []string
	var mu sync.Mutex
	var wg sync.WaitGroup
	sem := make(chan struct{}, 16)
	for _, v := range vcs {
		seen := map[string]bool{}
		for _, cp := range v.vc.Covers {
			id := fmt.Sprintf("%s|%d", cp.Guard, cp.NAssumes)
			if seen[id] {
				continue
			}
			seen[id] = true
			wg.Add(1)
			go func(v vcAndKey, cp CoverPoint) {
				defer wg.Done()
				sem <- struct{}{}
				defer func() { <-sem }()
				// is the call itself reachable? (dead code under assumed library contracts is not a vacuity problem)
				q := v.vc.CoverQuery(cp.Guard, cp.NAssumes)
				if d := os.Getenv("GOVC_DUMP"); d != "" {
					os.MkdirAll(d, 0o755)
					os.WriteFile(filepath.Join(d, "coverpt_"+mangle(v.key+"_"+cp.What)+".smt2"), []byte(dropQuantified(q)), 0o644)
				}
				r := runSolver(solvers[0], dropQuantified(q), timeout)
				if r.verdict == "unsat" {
					pre := v.vc.CoverQuery(cp.Guard, cp.PreAssumes)
					if r0 := runSolver(solvers[0], dropQuantified(pre), timeout); r0.verdict == "unsat" {
						return
					}
					mu.Lock()
					out = append(out, fmt.Sprintf("%s: state %s is unreachable under the assumed contracts (contradictory assumptions)", v.key, cp.What))
					mu.Unlock()
				}
			}(v, cp)
		}
		for _, o := range v.vc.Obls {
			if o.Kind == "nopanic" {
				continue // safety obligations inside branches that the assumed library contracts make dead are harmless
			}
			id := fmt.Sprintf("%s|%d", o.Guard, o.NAssumes)
			if seen[id] {
				continue
			}
			seen[id] = true
			wg.Add(1)
			go func(v vcAndKey, o *Obligation) {
				defer wg.Done()
				sem <- struct{}{}
				defer func() { <-sem }()
				q := v.vc.CoverQuery(o.Guard, o.NAssumes)
				if d := os.Getenv("GOVC_DUMP"); d != "" {
					os.MkdirAll(d, 0o755)
					os.WriteFile(filepath.Join(d, "cover_"+mangle(o.Name)+".smt2"), []byte(q), 0o644)
				}
				// reachability needs a model, which quantified axioms usually prevent: short attempt with them,
				// then without (a contradiction among the quantifier-free facts is what a vacuous contract looks like)
				r := runSolver(solvers[0], q, 2)
				if r.verdict != "unsat" && r.verdict != "sat" {
					r = runSolver(solvers[0], dropQuantified(q), timeout)
				}
				if r.verdict == "unsat" {
					mu.Lock()
					out = append(out, fmt.Sprintf("%s: program point of %s is unreachable under the assumed contracts (vacuous proof)", v.key, o.Name))
					mu.Unlock()
				}
			}(v, o)
		}
	}
	wg.Wait()
	sort.Strings(out)
	return out
}

func writeEvidence(prop, tier string, seed int, recs []oblRecord, abstracted, knownHit []string, pc *PropConfig, wall time.Duration, violations int, obls []*Obligation, w *World) {
	total, discharged := 0, 0
	backends := map[string]int{}
	var solverMs int64
	knownSet := map[string]bool{}
	for _, k := range knownHit {
		knownSet[k] = true
	}
	var undecided []string
	for _, r := range recs {
		if knownSet[r.Name] {
			continue
		}
		if r.Result != "unsat" && r.Result != "sat" && !lockedNow[r.Name] {
			// new obligation (not in the baseline lock) that no solver decided: not part of the claim
			undecided = append(undecided, r.Name+" ("+r.Result+")")
			continue
		}
		total++
		if r.Result == "unsat" {
			discharged++
		}
		backends[r.Backend]++
		solverMs += r.Ms
	}
	var samples []interface{}
	for i, o := range obls {
		if i%7 == 0 && len(samples) < 4 && o.Result == "unsat" {
			samples = append(samples, map[string]interface{}{"obligation": o.Name, "clause": o.Text, "position": o.Pos, "goal_smt": truncate(o.Goal, 600), "guard_smt": truncate(o.Guard, 200), "verdict": o.Result, "backend": o.Backend})
		}
	}
	if len(samples) == 0 {
		for _, o := range obls {
			samples = append(samples, map[string]interface{}{"obligation": o.Name, "clause": o.Text, "verdict": o.Result})
			break
		}
	}
	if len(samples) == 0 {
		samples = append(samples, "no obligations generated (see violations)")
	}
	trusted := []string{
		"govc VC generator (this repository's /verif/govc): SSA-to-SMT translation, memory model, loop cutting",
		"SMT solvers z3 5.1.0 / cvc5 1.0.x / z3 4.8.12 (first definite answer wins; thorough tier requires agreement)",
		"integers are mathematical (machine overflow not modelled)",
		"sequential consistency; within one function other goroutines interfere only at declared interference points (lock, wait, channel operations, calls marked yields)",
	}
	if w != nil {
		used := []string{}
		for k, c := range w.specs.Contracts {
			if c.Used && !strings.Contains(c.File, repoDir+"/") {
				used = append(used, k)
			}
		}
		sort.Strings(used)
		for _, k := range used {
			trusted = append(trusted, "assumed contract (extern/library): "+k)
		}
		for _, ax := range w.specs.Axioms {
			trusted = append(trusted, "axiom "+ax.Name+": "+ax.Text)
		}
		for k, c := range w.specs.Contracts {
			if c.Flags["trusted"] != "" {
				trusted = append(trusted, "trusted contract (body not verified): "+k)
			}
		}
	}
	var assumptions []string
	if pc != nil {
		assumptions = append(assumptions, pc.Assumptions...)
	}
	assumptions = append(assumptions, "mathematical integers", "sequential consistency / thread-modular interference model", "library contracts under /verif/specs are assumed, not proved")
	ev := map[string]interface{}{
		"property_id": prop,
		"tier":        tier,
		"seed":        seed,
		"level":       "proof",
		"wall_s":      wall.Seconds(),
		"violations":  violations,
		"assumptions": assumptions,
		"coverage": map[string]interface{}{
			"obligations":              total,
			"discharged":               discharged,
			"checker_cmd":              "/verif/bin/govc check " + prop + " --tier " + tier,
			"trusted_base":             trusted,
			"samples":                  samples,
			"functions_under_contract": pcFuncs(pc),
			"per_obligation":           recs,
			"backends":                 backends,
			"solver_ms_total":          solverMs,
			"abstracted":               abstracted,
			"known_findings_hit":       knownHit,
			"not_applicable_clauses":   pcNA(pc),
			"bounded":                  boundedResults,
		},
	}
	if pc != nil && pc.Level != "" && total > 0 {
		ev["level"] = pc.Level
		ev["coverage"].(map[string]interface{})["explanation"] = pc.Explanation
	}
	if total == 0 {
		ev["level"] = "other"
		ev["coverage"].(map[string]interface{})["explanation"] = "no obligation could be generated in this run (load or contract-binding failure); see violations"
	}
	data, _ := json.MarshalIndent(ev, "", " ")
	os.MkdirAll(filepath.Join(outDir, "evidence"), 0o755)
	os.WriteFile(filepath.Join(outDir, "evidence", prop+".json"), append(data, '\n'), 0o644)
}

func pcFuncs(pc *PropConfig) []string {
	if pc == nil {
		return nil
	}
	return pc.Functions
}
func pcNA(pc *PropConfig) []string {
	if pc == nil {
		return nil
	}
	return pc.NotApplicable
}
func pcBounded(pc *PropConfig) []string {
	if pc == nil {
		return nil
	}
	return pc.Bounded
}

// callersSweep: syntactic sweep over every repository function for calls to the guarded callees.
func callersSweep(w *World, pc *PropConfig) []string {
	var out []string
	if len(pc.Callers) == 0 {
		return nil
	}
	var keys []string
	for k := range w.funcs {
		keys = append(keys, k)
	}
	sort.Strings(keys)
	for _, k := range keys {
		fn := w.funcs[k]
		if !w.isRepoFunc(fn) {
			continue
		}
		if p := w.prog.Fset.Position(fn.Pos()); strings.HasSuffix(p.Filename, "_test.go") {
			continue
		}
		for _, b := range fn.Blocks {
			for _, in := range b.Instrs {
				ci, ok := in.(ssa.CallInstruction)
				if !ok {
					continue
				}
				c := ci.Common()
				callee := ""
				if c.IsInvoke() {
					callee = "(" + canonKey(c.Value.Type().String()) + ")." + c.Method.Name()
				} else if sc := c.StaticCallee(); sc != nil {
					callee = funcKey(sc)
				}
				allowed, guarded := pc.Callers[callee]
				if !guarded {
					continue
				}
				ok2 := false
				for _, a := range allowed {
					if a == k {
						ok2 = true
					}
				}
				if !ok2 {
					out = append(out, fmt.Sprintf("%s is called from %s, which is not one of the functions verified to establish its precondition (%s)", callee, k, strings.Join(allowed, ", ")))
				}
			}
		}
	}
	return out
}

type boundedResult struct {
	File      string  `json:"file"`
	Label     string  `json:"label"`
	Ok        bool    `json:"completed"`
	Violation bool    `json:"violation"`
	Cases     int     `json:"cases"`
	Bound     string  `json:"bound"`
	Seconds   float64 `json:"seconds"`
	Output    string  `json:"-"`
}

var boundedResults []boundedResult

// lockedNow: obligations of the current property that are in the baseline lock (set by checkMain)
var lockedNow = map[string]bool{}

func firstLine(out, marker string) string {
	for _, l := range strings.Split(out, "\n") {
		if strings.Contains(l, marker) {
			return strings.TrimSpace(l)
		}
	}
	return ""
}

// runBounded runs one bounded stand-in: a Go test source under /verif/bounded injected into its package
// through `go test -overlay` (nothing is written under /repo).
func runBounded(file string, tier string) boundedResult {
	br := boundedResult{File: file, Label: "bounded stand-in (not a proof)"}
	src, err := os.ReadFile(filepath.Join(verifDir, "bounded", file))
	if err != nil {
		br.Output = err.Error()
		return br
	}
	pkgDir, testName := "", ""
	for _, l := range strings.Split(string(src), "\n") {
		l = strings.TrimSpace(l)
		if strings.HasPrefix(l, "// package:") {
			pkgDir = strings.TrimSpace(strings.TrimPrefix(l, "// package:"))
		}
		if strings.HasPrefix(l, "// run:") {
			testName = strings.TrimSpace(strings.TrimPrefix(l, "// run:"))
		}
	}
	work, err := os.MkdirTemp("", "govc-bounded-")
	if err != nil {
		br.Output = err.Error()
		return br
	}
	defer os.RemoveAll(work)
	testSrc := filepath.Join(work, "zz_govc_bounded_test.go")
	os.WriteFile(testSrc, src, 0o644)
	ov := map[string]map[string]string{"Replace": {filepath.Join(repoDir, pkgDir, "zz_govc_bounded_test.go"): testSrc}}
	ovData, _ := json.Marshal(ov)
	ovPath := filepath.Join(work, "overlay.json")
	os.WriteFile(ovPath, ovData, 0o644)
	start := time.Now()
	cmd := exec.Command("go", "test", "-overlay", ovPath, "-vet=off", "-count=1", "-timeout", "600s", "-run", "^"+testName+"$", "-v", "./"+pkgDir)
	cmd.Dir = repoDir
	cmd.Env = append(os.Environ(), "GOFLAGS=-mod=mod", "GOPROXY=off", "GOSUMDB=off", "GOTOOLCHAIN=local", "VERIF_TIER="+tier)
	out, _ := cmd.CombinedOutput()
	br.Seconds = time.Since(start).Seconds()
	br.Output = truncate(string(out), 8000)
	if strings.Contains(string(out), "GOVC-BOUNDED-VIOLATION") || strings.Contains(string(out), "panic:") {
		br.Violation = true
		return br
	}
	if l := firstLine(string(out), "GOVC-BOUNDED cases="); l != "" {
		fmt.Sscanf(l[strings.Index(l, "cases=")+6:], "%d", &br.Cases)
		if i := strings.Index(l, "bound="); i >= 0 {
			br.Bound = strings.Trim(l[i+6:], "\"")
		}
		br.Ok = strings.Contains(string(out), "\nok") || strings.Contains(string(out), "PASS")
	}
	return br
}

// loopDropped: n is an invariant obligation of a baseline loop that the current function no longer contains.
func loopDropped(n string) bool {
	i := strings.Index(n, "#invariant-")
	if i < 0 {
		return false
	}
	parts := strings.SplitN(n[i+1:], ":", 3)
	if len(parts) < 2 {
		return false
	}
	ord, err := strconv.Atoi(parts[1])
	if err != nil {
		return false
	}
	return droppedLoops[n[:i]][ord]
}

// lockedFunc: the function of obligation n has obligations in the lock (it existed and was verified on the baseline).
func lockedFunc(locked map[string]bool, n string) bool {
	i := strings.Index(n, "#")
	if i < 0 {
		return false
	}
	pre := n[:i+1]
	for k := range locked {
		if strings.HasPrefix(k, pre) {
			return true
		}
	}
	return false
}

// contractRelevant: the heap variable of frame obligation n (F.<pkg>.<Type>.<field> or G.<ghost>) is mentioned in a
// clause of some contract (requires / ensures / invariant / lemma): state the verification depends on.
func contractRelevant(w *World, n string) bool {
	i := strings.Index(n, "#frame:")
	if i < 0 {
		return false
	}
	hv := n[i+len("#frame:"):]
	var re *regexp.Regexp
	switch {
	case strings.HasPrefix(hv, "F."):
		re = regexp.MustCompile(`\.` + regexp.QuoteMeta(hv[strings.LastIndex(hv, ".")+1:]) + `\b`)
	case strings.HasPrefix(hv, "G."):
		re = regexp.MustCompile(`\b` + regexp.QuoteMeta(hv[2:]) + `\(`)
	default:
		return false
	}
	for _, c := range w.specs.Contracts {
		var cls []*Clause
		cls = append(cls, c.Requires...)
		cls = append(cls, c.Ensures...)
		cls = append(cls, c.Preserves...)
		for _, l := range c.Loops {
			cls = append(cls, l.Invariants...)
		}
		for _, a := range c.After {
			cls = append(cls, a...)
		}
		for _, cl := range cls {
			if re.MatchString(cl.Text) {
				return true
			}
		}
	}
	return false
}

// calleeClosure: keys plus every repository function with a verified (not trusted) contract that is reachable from them
// through static calls, go / defer statements and function literals.
func calleeClosure(w *World, keys []string) []string {
	seen := map[string]bool{}
	out := append([]string{}, keys...)
	for _, k := range keys {
		seen[k] = true
	}
	for i := 0; i < len(out); i++ {
		fn := w.funcs[canonKey(out[i])]
		if fn == nil {
			continue
		}
		var cands []*ssa.Function
		for _, b := range fn.Blocks {
			for _, in := range b.Instrs {
				if ci, ok := in.(ssa.CallInstruction); ok {
					if sc := ci.Common().StaticCallee(); sc != nil {
						cands = append(cands, sc)
					}
				}
				if mc, ok := in.(*ssa.MakeClosure); ok {
					if f, ok := mc.Fn.(*ssa.Function); ok {
						cands = append(cands, f)
					}
				}
			}
		}
		sort.Slice(cands, func(a, b int) bool { return funcKey(cands[a]) < funcKey(cands[b]) })
		for _, c := range cands {
			k := funcKey(c)
			if seen[k] {
				continue
			}
			ct := w.specs.Contracts[canonKey(k)]
			if ct == nil {
				ct = w.specs.Contracts[k]
			}
			if ct == nil || ct.Flags["trusted"] != "" || !strings.Contains(ct.File, "zz_contracts_verif.go") || len(c.Blocks) == 0 || w.funcs[canonKey(k)] == nil {
				continue
			}
			seen[k] = true
			out = append(out, k)
		}
	}
	return out
}

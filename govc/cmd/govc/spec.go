package main

// Contract files: line format, clause structure and the expression parser.
//
// Contracts are comment-only: every meaningful line starts with "//@". In-repo contract files are
// /repo/src/<pkg>/zz_contracts_verif.go (build tag verif); assumed contracts for externals and the
// ghost-state declarations live in /verif/specs/*.spec with the same syntax.

import (
	"crypto/sha1"
	"encoding/hex"
	"fmt"
	"os"
	"strings"
	"unicode"
)

// ---------- expression AST ----------

type Expr interface{}

type (
	EIdent struct{ Name string }
	EInt   struct{ V string }
	EStr   struct{ V string }
	EBool  struct{ V bool }
	EBin   struct {
		Op   string
		L, R Expr
	}
	EUn struct {
		Op string
		X  Expr
	}
	ESel struct {
		X    Expr
		Name string
	}
	EIndex struct{ X, I Expr }
	ESlice struct{ X, Lo, Hi Expr }
	ECall  struct {
		Fn   string
		Args []Expr
	}
	EQuant struct {
		Forall   bool
		Vars     []Binder
		Body     Expr
		Triggers [][]Expr // optional explicit patterns: forall i int {s[i]} {t[i], u[i]} :: body
	}
)

type Binder struct {
	Name string
	Type string // textual type, resolved at evaluation time
}

// ---------- clauses ----------

type Clause struct {
	Name string // label (may be "")
	Text string
	E    Expr
	Line string // file:line for diagnostics
}

type LoopSpec struct {
	Invariants []*Clause
	Assigns    []string // optional explicit loop frame (raw designators)
	Decreases  *Clause
}

type Contract struct {
	Key        string // function key as written
	File       string
	Requires   []*Clause
	Ensures    []*Clause
	After      map[string][]*Clause // callee key -> intermediate assertions proved right after each call of it, then assumed
	Preserves  []*Clause            // callback invariants: required and ensured by the function; carried across a callee that invokes it (frame_of_param)
	Assigns    []string             // raw designators; nil = not declared
	HasAssigns bool
	Loops      map[int]*LoopSpec
	Flags      map[string]string // trusted, pure, noeffect, sequential, may_panic, nonblocking, yields, safety ...
	ParamSpecs map[string]string // param -> named contract for func-typed parameters / values
	Lets       []LetDef          // "let x = expr" evaluated in the pre-state
	Sets       []SetDef          // "sets ghost(args) := expr": ghost updates performed at function exit
	SpawnSets  []SetDef          // "spawnsets ghost(args) := expr": ghost updates visible to the spawner at `go f(...)`
	Used       bool
}

// allAssigns: the declared frame plus the targets of the ghost updates.
func (c *Contract) allAssigns() []string {
	out := append([]string{}, c.Assigns...)
	for _, s := range c.Sets {
		out = append(out, s.Target)
	}
	return out
}

type SetDef struct {
	Target string // designator text, e.g. gateOpen(process)
	E      Expr
	Line   string
}

type LetDef struct {
	Name string
	E    Expr
	Old  bool
}

type GhostDecl struct {
	Name     string
	Params   []string // textual types
	Result   string
	Monotone bool   // latch: once true stays true (rely and guarantee)
	Counter  bool   // integer ghost that only grows
	Kind     string // "ghost" (heap dependent) or "pure" (uninterpreted function)
}

type DefineDecl struct {
	Name   string
	Params []Binder
	Result string
	Body   Expr
}

type AxiomDecl struct {
	Name string
	E    Expr
	Text string
	File string
}

type PkgRule struct {
	Path string
	Rule string // noeffect | pure
}

type SpecSet struct {
	Contracts map[string]*Contract // by key
	Ghosts    map[string]*GhostDecl
	Defines   map[string]*DefineDecl
	Axioms    []*AxiomDecl
	PkgRules  []PkgRule
	// field annotations: "Type.field" -> annotation (guarded_by lock-expr, shared, ...)
	FieldAnn map[string]map[string]string
	Files    []string
}

// sortedGhosts: deterministic iteration order (the order of assumptions influences the solvers).
func (ss *SpecSet) sortedGhosts() []*GhostDecl {
	var names []string
	for n := range ss.Ghosts {
		names = append(names, n)
	}
	sortStrings(names)
	var out []*GhostDecl
	for _, n := range names {
		out = append(out, ss.Ghosts[n])
	}
	return out
}

func NewSpecSet() *SpecSet {
	return &SpecSet{Contracts: map[string]*Contract{}, Ghosts: map[string]*GhostDecl{}, Defines: map[string]*DefineDecl{}, FieldAnn: map[string]map[string]string{}}
}

var clauseKeywords = map[string]bool{"func": true, "spawnsets": true, "after": true, "preserves": true, "requires": true, "ensures": true, "assigns": true, "loop": true,
	"ghost": true, "pure": true, "define": true, "axiom": true, "package": true, "flag": true, "param": true, "let": true,
	"field": true, "latch": true, "extern": true, "sets": true, "counter": true}

// LoadSpecFile parses one contract file. pkgPrefix is prepended to in-repo function keys
// ("" for extern spec files, which use fully qualified keys).
func (ss *SpecSet) LoadSpecFile(path string, pkgPrefix string) error {
	data, err := os.ReadFile(path)
	if err != nil {
		return err
	}
	ss.Files = append(ss.Files, path)
	type rawLine struct {
		text string
		no   int
	}
	var lines []rawLine
	for i, l := range strings.Split(string(data), "\n") {
		t := strings.TrimSpace(l)
		if !strings.HasPrefix(t, "//@") {
			continue
		}
		t = strings.TrimSpace(t[3:])
		if t == "" || strings.HasPrefix(t, "#") {
			continue
		}
		lines = append(lines, rawLine{t, i + 1})
	}
	// join continuation lines
	var stmts []rawLine
	for _, l := range lines {
		first := l.text
		if i := strings.IndexFunc(first, unicode.IsSpace); i >= 0 {
			first = first[:i]
		}
		if clauseKeywords[first] || len(stmts) == 0 {
			stmts = append(stmts, l)
		} else {
			stmts[len(stmts)-1].text += " " + l.text
		}
	}
	var cur *Contract
	for _, s := range stmts {
		where := fmt.Sprintf("%s:%d", path, s.no)
		kw, rest := splitFirst(s.text)
		fail := func(e error) error { return fmt.Errorf("%s: %v (in %q)", where, e, s.text) }
		switch kw {
		case "func", "extern":
			key := strings.TrimSpace(rest)
			if kw == "func" && pkgPrefix != "" {
				key = pkgPrefix + "::" + normFuncKey(key)
			}
			if _, dup := ss.Contracts[key]; dup {
				return fail(fmt.Errorf("duplicate contract for %s", key))
			}
			cur = &Contract{Key: key, File: where, Loops: map[int]*LoopSpec{}, Flags: map[string]string{}, ParamSpecs: map[string]string{}}
			ss.Contracts[key] = cur
		case "after":
			// after <callee key> assert <label>: <expr>
			if cur == nil {
				return fail(fmt.Errorf("clause outside func"))
			}
			i := strings.Index(rest, " assert ")
			if i < 0 {
				return fail(fmt.Errorf("after <callee> assert <clause>"))
			}
			c, err := parseClause(rest[i+len(" assert "):], where)
			if err != nil {
				return fail(err)
			}
			if cur.After == nil {
				cur.After = map[string][]*Clause{}
			}
			k := strings.TrimSpace(rest[:i])
			cur.After[k] = append(cur.After[k], c)
		case "preserves":
			if cur == nil {
				return fail(fmt.Errorf("clause outside func"))
			}
			c, err := parseClause(rest, where)
			if err != nil {
				return fail(err)
			}
			cur.Preserves = append(cur.Preserves, c)
			cur.Requires = append(cur.Requires, c)
			cur.Ensures = append(cur.Ensures, &Clause{Name: "preserved-" + c.Name, Text: c.Text, E: c.E, Line: c.Line})
		case "requires", "ensures":
			if cur == nil {
				return fail(fmt.Errorf("clause outside func"))
			}
			c, err := parseClause(rest, where)
			if err != nil {
				return fail(err)
			}
			if kw == "requires" {
				cur.Requires = append(cur.Requires, c)
			} else {
				cur.Ensures = append(cur.Ensures, c)
			}
		case "assigns":
			if cur == nil {
				return fail(fmt.Errorf("clause outside func"))
			}
			cur.HasAssigns = true
			for _, d := range splitTop(rest, ',') {
				d = strings.TrimSpace(d)
				if d != "" && d != "nothing" {
					cur.Assigns = append(cur.Assigns, d)
				}
			}
		case "sets":
			if cur == nil {
				return fail(fmt.Errorf("clause outside func"))
			}
			i := strings.Index(rest, ":=")
			if i < 0 {
				return fail(fmt.Errorf("sets target := expr"))
			}
			e, err := ParseExpr(rest[i+2:])
			if err != nil {
				return fail(err)
			}
			cur.Sets = append(cur.Sets, SetDef{Target: strings.TrimSpace(rest[:i]), E: e, Line: where})
		case "spawnsets":
			if cur == nil {
				return fail(fmt.Errorf("clause outside func"))
			}
			i := strings.Index(rest, ":=")
			if i < 0 {
				return fail(fmt.Errorf("spawnsets target := expr"))
			}
			e, err := ParseExpr(rest[i+2:])
			if err != nil {
				return fail(err)
			}
			cur.SpawnSets = append(cur.SpawnSets, SetDef{Target: strings.TrimSpace(rest[:i]), E: e, Line: where})
		case "let":
			if cur == nil {
				return fail(fmt.Errorf("clause outside func"))
			}
			i := strings.Index(rest, "=")
			if i < 0 {
				return fail(fmt.Errorf("let needs ="))
			}
			e, err := ParseExpr(rest[i+1:])
			if err != nil {
				return fail(err)
			}
			cur.Lets = append(cur.Lets, LetDef{Name: strings.TrimSpace(rest[:i]), E: e})
		case "loop":
			if cur == nil {
				return fail(fmt.Errorf("clause outside func"))
			}
			ns, r2 := splitFirst(rest)
			var n int
			if _, err := fmt.Sscanf(ns, "%d", &n); err != nil {
				return fail(fmt.Errorf("loop ordinal: %v", err))
			}
			ls := cur.Loops[n]
			if ls == nil {
				ls = &LoopSpec{}
				cur.Loops[n] = ls
			}
			k2, r3 := splitFirst(r2)
			switch k2 {
			case "invariant":
				c, err := parseClause(r3, where)
				if err != nil {
					return fail(err)
				}
				ls.Invariants = append(ls.Invariants, c)
			case "assigns":
				for _, d := range splitTop(r3, ',') {
					d = strings.TrimSpace(d)
					if d != "" {
						ls.Assigns = append(ls.Assigns, d)
					}
				}
			case "decreases":
				c, err := parseClause(r3, where)
				if err != nil {
					return fail(err)
				}
				ls.Decreases = c
			default:
				return fail(fmt.Errorf("unknown loop clause %q", k2))
			}
		case "flag":
			if cur == nil {
				return fail(fmt.Errorf("clause outside func"))
			}
			for _, f := range strings.Fields(rest) {
				if i := strings.Index(f, "="); i >= 0 {
					cur.Flags[f[:i]] = f[i+1:]
				} else {
					cur.Flags[f] = "true"
				}
			}
		case "param":
			if cur == nil {
				return fail(fmt.Errorf("clause outside func"))
			}
			// param <name> as <contract key>
			fs := strings.Fields(rest)
			if len(fs) < 3 || fs[1] != "as" {
				return fail(fmt.Errorf("param <name> as <contract>"))
			}
			cur.ParamSpecs[fs[0]] = strings.Join(fs[2:], " ")
		case "ghost", "pure", "latch", "counter":
			g, err := parseGhost(rest)
			if err != nil {
				return fail(err)
			}
			g.Kind = kw
			if kw == "latch" {
				g.Kind = "ghost"
				g.Monotone = true
			}
			if kw == "counter" {
				g.Kind = "ghost"
				g.Counter = true
			}
			ss.Ghosts[g.Name] = g
		case "define":
			d, err := parseDefine(rest)
			if err != nil {
				return fail(err)
			}
			ss.Defines[d.Name] = d
		case "axiom":
			c, err := parseClause(rest, where)
			if err != nil {
				return fail(err)
			}
			ss.Axioms = append(ss.Axioms, &AxiomDecl{Name: c.Name, E: c.E, Text: c.Text, File: where})
		case "package":
			fs := strings.Fields(rest)
			if len(fs) != 2 {
				return fail(fmt.Errorf("package <path> <rule>"))
			}
			ss.PkgRules = append(ss.PkgRules, PkgRule{fs[0], fs[1]})
		case "field":
			// field Type.name key=value ...
			fs := strings.Fields(rest)
			if len(fs) < 2 {
				return fail(fmt.Errorf("field Type.name key=value"))
			}
			m := ss.FieldAnn[fs[0]]
			if m == nil {
				m = map[string]string{}
				ss.FieldAnn[fs[0]] = m
			}
			for _, f := range fs[1:] {
				if i := strings.Index(f, "="); i >= 0 {
					m[f[:i]] = f[i+1:]
				} else {
					m[f] = "true"
				}
			}
		default:
			return fail(fmt.Errorf("unknown keyword %q", kw))
		}
	}
	return nil
}

// normFuncKey normalises "(p *Process) run" / "(*Process).run" / "NewLogBuffer" to
// "(*Process).run" / "NewLogBuffer".
func normFuncKey(k string) string {
	k = strings.TrimSpace(k)
	if strings.HasPrefix(k, "(") {
		end := strings.Index(k, ")")
		recv := strings.TrimSpace(k[1:end])
		rest := strings.TrimSpace(k[end+1:])
		rest = strings.TrimPrefix(rest, ".")
		fs := strings.Fields(recv)
		rt := fs[len(fs)-1]
		return "(" + rt + ")." + rest
	}
	return k
}

func splitFirst(s string) (string, string) {
	s = strings.TrimSpace(s)
	i := strings.IndexFunc(s, unicode.IsSpace)
	if i < 0 {
		return s, ""
	}
	return s[:i], strings.TrimSpace(s[i:])
}

// splitTop splits at sep outside parentheses/brackets/strings.
func splitTop(s string, sep byte) []string {
	var out []string
	depth := 0
	inStr := byte(0)
	start := 0
	for i := 0; i < len(s); i++ {
		c := s[i]
		if inStr != 0 {
			if c == '\\' && inStr == '"' {
				i++
			} else if c == inStr {
				inStr = 0
			}
			continue
		}
		switch c {
		case '"', '`':
			inStr = c
		case '(', '[':
			depth++
		case ')', ']':
			depth--
		default:
			if c == sep && depth == 0 {
				out = append(out, s[start:i])
				start = i + 1
			}
		}
	}
	out = append(out, s[start:])
	return out
}

func parseClause(rest string, where string) (*Clause, error) {
	name := ""
	// optional "label:" prefix — label is [A-Za-z0-9_-.]+ followed by ':' and not '::'
	for i := 0; i < len(rest); i++ {
		c := rest[i]
		if c == ':' {
			if i+1 < len(rest) && rest[i+1] == ':' {
				break
			}
			if i > 0 {
				name = rest[:i]
				rest = rest[i+1:]
			}
			break
		}
		if !(unicode.IsLetter(rune(c)) || unicode.IsDigit(rune(c)) || c == '_' || c == '-' || c == '.') {
			break
		}
	}
	e, err := ParseExpr(rest)
	if err != nil {
		return nil, err
	}
	if name == "" {
		// unnamed clauses are labelled by a hash of their text, so that inserting or reordering clauses
		// does not rename the obligations generated from the others
		h := sha1.Sum([]byte(strings.Join(strings.Fields(rest), " ")))
		name = "c" + hex.EncodeToString(h[:])[:6]
	}
	return &Clause{Name: name, Text: strings.TrimSpace(rest), E: e, Line: where}, nil
}

func parseGhost(rest string) (*GhostDecl, error) {
	// name(type, type) result
	i := strings.Index(rest, "(")
	j := matchParen(rest, i)
	if i < 0 || j < 0 {
		return nil, fmt.Errorf("ghost name(types) result")
	}
	g := &GhostDecl{Name: strings.TrimSpace(rest[:i])}
	for _, p := range splitTop(rest[i+1:j], ',') {
		p = strings.TrimSpace(p)
		if p != "" {
			g.Params = append(g.Params, p)
		}
	}
	g.Result = strings.TrimSpace(rest[j+1:])
	if g.Result == "" {
		g.Result = "bool"
	}
	return g, nil
}

func parseDefine(rest string) (*DefineDecl, error) {
	i := strings.Index(rest, "(")
	j := matchParen(rest, i)
	if i < 0 || j < 0 {
		return nil, fmt.Errorf("define name(params) type = expr")
	}
	d := &DefineDecl{Name: strings.TrimSpace(rest[:i])}
	for _, p := range splitTop(rest[i+1:j], ',') {
		p = strings.TrimSpace(p)
		if p == "" {
			continue
		}
		n, t := splitFirst(p)
		d.Params = append(d.Params, Binder{n, t})
	}
	tail := rest[j+1:]
	k := strings.Index(tail, "=")
	if k < 0 {
		return nil, fmt.Errorf("define needs =")
	}
	d.Result = strings.TrimSpace(tail[:k])
	e, err := ParseExpr(tail[k+1:])
	if err != nil {
		return nil, err
	}
	d.Body = e
	return d, nil
}

func matchParen(s string, i int) int {
	if i < 0 {
		return -1
	}
	depth := 0
	for k := i; k < len(s); k++ {
		switch s[k] {
		case '(':
			depth++
		case ')':
			depth--
			if depth == 0 {
				return k
			}
		}
	}
	return -1
}

// ---------- tokenizer ----------

type tok struct {
	kind string // id int str op eof
	text string
}

func lex(s string) ([]tok, error) {
	var ts []tok
	i := 0
	for i < len(s) {
		c := s[i]
		switch {
		case c == ' ' || c == '\t' || c == '\n' || c == '\r':
			i++
		case unicode.IsLetter(rune(c)) || c == '_':
			j := i
			for j < len(s) && (unicode.IsLetter(rune(s[j])) || unicode.IsDigit(rune(s[j])) || s[j] == '_' || s[j] == '$') {
				j++
			}
			ts = append(ts, tok{"id", s[i:j]})
			i = j
		case unicode.IsDigit(rune(c)):
			j := i
			for j < len(s) && (unicode.IsDigit(rune(s[j])) || s[j] == '_') {
				j++
			}
			ts = append(ts, tok{"int", strings.ReplaceAll(s[i:j], "_", "")})
			i = j
		case c == '"':
			j := i + 1
			var b strings.Builder
			for j < len(s) && s[j] != '"' {
				if s[j] == '\\' && j+1 < len(s) {
					switch s[j+1] {
					case 'n':
						b.WriteByte('\n')
					case 't':
						b.WriteByte('\t')
					case '\\':
						b.WriteByte('\\')
					case '"':
						b.WriteByte('"')
					default:
						b.WriteByte(s[j+1])
					}
					j += 2
					continue
				}
				b.WriteByte(s[j])
				j++
			}
			if j >= len(s) {
				return nil, fmt.Errorf("unterminated string")
			}
			ts = append(ts, tok{"str", b.String()})
			i = j + 1
		case c == '`':
			j := strings.IndexByte(s[i+1:], '`')
			if j < 0 {
				return nil, fmt.Errorf("unterminated raw string")
			}
			ts = append(ts, tok{"str", s[i+1 : i+1+j]})
			i = i + j + 2
		default:
			for _, op := range []string{"<==>", "==>", "::", "==", "!=", "<=", ">=", "&&", "||", ":=", "(", ")", "[", "]", ",", ".", "+", "-", "*", "/", "%", "<", ">", "!", ":", "{", "}", "?"} {
				if strings.HasPrefix(s[i:], op) {
					ts = append(ts, tok{"op", op})
					i += len(op)
					goto next
				}
			}
			return nil, fmt.Errorf("unexpected character %q at %d", c, i)
		next:
		}
	}
	ts = append(ts, tok{"eof", ""})
	return ts, nil
}

// ---------- parser ----------

type parser struct {
	ts []tok
	p  int
}

func ParseExpr(s string) (e Expr, err error) {
	ts, err := lex(s)
	if err != nil {
		return nil, err
	}
	ps := &parser{ts: ts}
	defer func() {
		if r := recover(); r != nil {
			if pe, ok := r.(parseErr); ok {
				err = fmt.Errorf("%s in %q", string(pe), strings.TrimSpace(s))
				return
			}
			panic(r)
		}
	}()
	e = ps.iff()
	if ps.peek().kind != "eof" {
		panic(parseErr(fmt.Sprintf("unexpected %q", ps.peek().text)))
	}
	return e, nil
}

type parseErr string

func (p *parser) peek() tok { return p.ts[p.p] }
func (p *parser) next() tok { t := p.ts[p.p]; p.p++; return t }
func (p *parser) isOp(s string) bool {
	t := p.peek()
	return t.kind == "op" && t.text == s
}
func (p *parser) accept(s string) bool {
	if p.isOp(s) {
		p.p++
		return true
	}
	return false
}
func (p *parser) expect(s string) {
	if !p.accept(s) {
		panic(parseErr(fmt.Sprintf("expected %q, found %q", s, p.peek().text)))
	}
}

func (p *parser) iff() Expr {
	l := p.impl()
	for p.accept("<==>") {
		r := p.impl()
		l = &EBin{"<==>", l, r}
	}
	return l
}

func (p *parser) impl() Expr {
	l := p.or()
	if p.accept("==>") {
		r := p.impl()
		return &EBin{"==>", l, r}
	}
	return l
}

func (p *parser) or() Expr {
	l := p.and()
	for p.accept("||") {
		r := p.and()
		l = &EBin{"||", l, r}
	}
	return l
}

func (p *parser) and() Expr {
	l := p.cmp()
	for p.accept("&&") {
		r := p.cmp()
		l = &EBin{"&&", l, r}
	}
	return l
}

func (p *parser) cmp() Expr {
	l := p.add()
	t := p.peek()
	if t.kind == "op" {
		switch t.text {
		case "==", "!=", "<", "<=", ">", ">=":
			p.next()
			r := p.add()
			return &EBin{t.text, l, r}
		}
	}
	if t.kind == "id" && t.text == "in" {
		p.next()
		r := p.add()
		return &EBin{"in", l, r}
	}
	return l
}

func (p *parser) add() Expr {
	l := p.mul()
	for {
		if p.accept("+") {
			l = &EBin{"+", l, p.mul()}
		} else if p.accept("-") {
			l = &EBin{"-", l, p.mul()}
		} else {
			return l
		}
	}
}

func (p *parser) mul() Expr {
	l := p.unary()
	for {
		if p.accept("*") {
			l = &EBin{"*", l, p.unary()}
		} else if p.accept("/") {
			l = &EBin{"/", l, p.unary()}
		} else if p.accept("%") {
			l = &EBin{"%", l, p.unary()}
		} else {
			return l
		}
	}
}

func (p *parser) unary() Expr {
	if p.accept("!") {
		return &EUn{"!", p.unary()}
	}
	if p.accept("-") {
		return &EUn{"-", p.unary()}
	}
	return p.postfix()
}

func (p *parser) postfix() Expr {
	e := p.primary()
	for {
		switch {
		case p.accept("."):
			t := p.next()
			if t.kind != "id" {
				panic(parseErr("expected field name after '.'"))
			}
			e = &ESel{e, t.text}
		case p.accept("["):
			var lo, hi Expr
			if p.isOp(":") {
				p.next()
				if !p.isOp("]") {
					hi = p.iff()
				}
				p.expect("]")
				e = &ESlice{e, nil, hi}
				continue
			}
			lo = p.iff()
			if p.accept(":") {
				if !p.isOp("]") {
					hi = p.iff()
				}
				p.expect("]")
				e = &ESlice{e, lo, hi}
				continue
			}
			p.expect("]")
			e = &EIndex{e, lo}
		default:
			return e
		}
	}
}

func (p *parser) primary() Expr {
	t := p.next()
	switch t.kind {
	case "int":
		return &EInt{t.text}
	case "str":
		return &EStr{t.text}
	case "id":
		switch t.text {
		case "true":
			return &EBool{true}
		case "false":
			return &EBool{false}
		case "forall", "exists":
			var bs []Binder
			for {
				n := p.next()
				if n.kind != "id" {
					panic(parseErr("binder name expected"))
				}
				ty := p.typeText()
				bs = append(bs, Binder{n.text, ty})
				if !p.accept(",") {
					break
				}
			}
			var trigs [][]Expr
			for p.accept("{") {
				var tr []Expr
				for {
					tr = append(tr, p.iff())
					if !p.accept(",") {
						break
					}
				}
				p.expect("}")
				trigs = append(trigs, tr)
			}
			p.expect("::")
			body := p.iff()
			return &EQuant{t.text == "forall", bs, body, trigs}
		}
		if p.isOp("(") {
			p.next()
			var args []Expr
			if !p.isOp(")") {
				for {
					args = append(args, p.iff())
					if !p.accept(",") {
						break
					}
				}
			}
			p.expect(")")
			return &ECall{t.text, args}
		}
		return &EIdent{t.text}
	case "op":
		if t.text == "(" {
			e := p.iff()
			p.expect(")")
			return e
		}
	}
	panic(parseErr(fmt.Sprintf("unexpected %q", t.text)))
}

// typeText consumes a type expression (up to ',' or '::') and returns it as text.
func (p *parser) typeText() string {
	var b strings.Builder
	depth := 0
	for {
		t := p.peek()
		if t.kind == "eof" {
			break
		}
		if t.kind == "op" && depth == 0 && (t.text == "," || t.text == "::" || t.text == "{") {
			break
		}
		if t.kind == "op" && t.text == "[" {
			depth++
		}
		if t.kind == "op" && t.text == "]" {
			depth--
		}
		b.WriteString(t.text)
		p.next()
	}
	return b.String()
}

func exprString(e Expr) string {
	switch x := e.(type) {
	case *EIdent:
		return x.Name
	case *EInt:
		return x.V
	case *EStr:
		return fmt.Sprintf("%q", x.V)
	case *EBool:
		return fmt.Sprint(x.V)
	case *EBin:
		return "(" + exprString(x.L) + " " + x.Op + " " + exprString(x.R) + ")"
	case *EUn:
		return x.Op + exprString(x.X)
	case *ESel:
		return exprString(x.X) + "." + x.Name
	case *EIndex:
		return exprString(x.X) + "[" + exprString(x.I) + "]"
	case *ESlice:
		return exprString(x.X) + "[:]"
	case *ECall:
		var as []string
		for _, a := range x.Args {
			as = append(as, exprString(a))
		}
		return x.Fn + "(" + strings.Join(as, ", ") + ")"
	case *EQuant:
		return "quant"
	}
	return "?"
}

package main

// VC generation: go/ssa function -> named obligations.

import (
	"fmt"
	"go/constant"
	"go/token"
	"go/types"
	"regexp"
	"sort"
	"strings"

	"golang.org/x/tools/go/packages"
	"golang.org/x/tools/go/ssa"
)

type World struct {
	prog      *ssa.Program
	pkgs      []*packages.Package
	specs     *SpecSet
	funcs     map[string]*ssa.Function // canonical key -> function
	allPkgs   map[string]*types.Package
	wsMemo    map[*ssa.Function]*WriteSet
	wsBusy    map[*ssa.Function]bool
	ptrFields map[string][]string // pointee type name -> heap variables of *T-typed struct fields
}

type WriteSet struct {
	FreshOnly map[string]bool // variables written only inside objects allocated by the code itself
	Vars      map[string]Sort
	All       bool
	Why       string // why All
	Yields    bool   // contains an interference point (lock, wait, channel operation)
	Recvs     bool   // contains a channel receive / select (timer bookkeeping ghosts change)
}

func (w *WriteSet) add(name string, s Sort) {
	w.Vars[name] = s
	delete(w.FreshOnly, name)
}

// addFresh records a write that only touches an object allocated by the analysed code.
func (w *WriteSet) addFresh(name string, s Sort) {
	if _, ok := w.Vars[name]; ok {
		return
	}
	w.Vars[name] = s
	if w.FreshOnly == nil {
		w.FreshOnly = map[string]bool{}
	}
	w.FreshOnly[name] = true
}
func (w *WriteSet) merge(o *WriteSet) {
	if o.All && !w.All {
		w.All = true
		w.Why = o.Why
	}
	if o.Yields {
		w.Yields = true
	}
	if o.Recvs {
		w.Recvs = true
	}
	for k, v := range o.Vars {
		if o.FreshOnly[k] {
			w.addFresh(k, v)
		} else {
			w.add(k, v)
		}
	}
}

var axiomSymRe = regexp.MustCompile(`U\.[A-Za-z0-9_]+`)

var pathRe = regexp.MustCompile(`[A-Za-z0-9_\-.~]+/`)

// canonKey shortens package paths in an ssa function string: "(*github.com/x/y/app.Process).run" -> "(*app.Process).run".
func canonKey(s string) string { return pathRe.ReplaceAllString(s, "") }

func funcKey(fn *ssa.Function) string { return canonKey(fn.String()) }

// contractKeyFromFile turns a key written in an in-repo contract file of package pkgShort into a canonical key.
func contractKeyFromFile(pkgShort, k string) string {
	k = normFuncKey(k)
	if strings.HasPrefix(k, "(*") {
		return "(*" + pkgShort + "." + k[2:]
	}
	if strings.HasPrefix(k, "(") {
		return "(" + pkgShort + "." + k[1:]
	}
	return pkgShort + "." + k
}

type deferred struct {
	call     *ssa.Defer
	guard    string
	args     []string
	recvOrFn string
}

type rangeInfo struct {
	curKey   string // key yielded by the latest Next (valid inside the loop body)
	curKeyTy types.Type
	instr    *ssa.Range
	mapType  *types.Map
	mapTerm  string
	domStart string
	seenVar  string
	seenSort Sort
	idx      int
}

type loopInfo struct {
	header  *ssa.BasicBlock
	body    map[*ssa.BasicBlock]bool
	ordinal int
	nameOrd int // ordinal used in obligation names (the baseline ordinal when loops were re-bound)
	spec    *LoopSpec
	ranges  []*rangeInfo // map-range iterators advanced in this loop's header
}

// Gen holds the per-function generation state.
type Gen struct {
	w        *World
	specs    *SpecSet
	vc       *VC
	model    *Model
	fn       *ssa.Function
	contract *Contract
	vals     map[ssa.Value]string
	tuples   map[ssa.Value][]string
	reach    map[*ssa.BasicBlock]string
	outHeap  map[*ssa.BasicBlock]*Heap
	entry    *Heap
	env0     *Env // pre-state environment (params bound)
	loops    map[*ssa.BasicBlock]*loopInfo
	loopList []*loopInfo
	backEdge map[[2]int]bool
	defers   []*deferred
	ranges   map[*ssa.Range]*rangeInfo
	counters map[string]int
	closures map[ssa.Value]*ssa.MakeClosure
	curLoops []*loopInfo
	globals  map[*types.Var]string
	errors   []string
	safety   map[string]bool
	retCount int
	blockCur *ssa.BasicBlock
	// inlining of small helper functions that have no contract (so that "extract helper" refactorings stay benign)
	inlineID    int
	inlineDepth int
	inlineStack map[*ssa.Function]bool
	startHeap   *Heap  // entry heap of an inlined body (call-site heap)
	startReach  string // reach condition of an inlined body's entry block (call-site guard)
	aliases     map[string]string
}

func (g *Gen) errorf(format string, a ...interface{}) {
	g.errors = append(g.errors, fmt.Sprintf(format, a...))
}

func (g *Gen) ordinal(kind string) int {
	g.counters[kind]++
	return g.counters[kind]
}

func (g *Gen) pos(p token.Pos) string {
	if !p.IsValid() {
		return ""
	}
	ps := g.w.prog.Fset.Position(p)
	return fmt.Sprintf("%s:%d", strings.TrimPrefix(ps.Filename, repoDir+"/"), ps.Line)
}

// GenFunction generates the VC for fn under its contract (which may be nil = default: safety only).
func (w *World) GenFunction(fn *ssa.Function, c *Contract) (*VC, []string) {
	key := funcKey(fn)
	g := &Gen{w: w, specs: w.specs, fn: fn, contract: c, vals: map[ssa.Value]string{}, tuples: map[ssa.Value][]string{},
		reach: map[*ssa.BasicBlock]string{}, outHeap: map[*ssa.BasicBlock]*Heap{}, loops: map[*ssa.BasicBlock]*loopInfo{},
		backEdge: map[[2]int]bool{}, ranges: map[*ssa.Range]*rangeInfo{}, counters: map[string]int{}, closures: map[ssa.Value]*ssa.MakeClosure{},
		globals: map[*types.Var]string{}, safety: map[string]bool{"index": true, "slice": true, "div": true, "nilmap": true, "explicit": true}}
	g.vc = NewVC(key)
	heapCounter = 0 // heap versions are per function: the VC text of a function does not depend on what was generated before
	g.model = &Model{vc: g.vc}
	for fk, ann := range w.specs.FieldAnn {
		if ann["const"] != "" {
			i := lastDot(fk)
			g.vc.constVars[fieldVar(fk[:i], fk[i+1:])] = true
		}
	}
	if c == nil {
		c = &Contract{Key: key, Loops: map[int]*LoopSpec{}, Flags: map[string]string{}, ParamSpecs: map[string]string{}}
		g.contract = c
	}
	if s, ok := c.Flags["safety"]; ok {
		for _, k := range strings.Split(s, ",") {
			g.safety[k] = true
		}
	}
	if s, ok := c.Flags["nosafety"]; ok {
		for _, k := range strings.Split(s, ",") {
			delete(g.safety, k)
		}
	}
	func() {
		defer func() {
			if r := recover(); r != nil {
				if ee, ok := r.(evalErr); ok {
					g.errorf("%s", string(ee))
					return
				}
				panic(r)
			}
		}()
		g.run()
	}()
	return g.vc, g.errors
}

// baselineParams: parameter names of the functions under contract on the unchanged tree (baseline/params.lock).
var baselineParams = map[string][]string{}

func (g *Gen) run() {
	fn := g.fn
	key := funcKey(fn)
	if len(fn.Blocks) == 0 {
		g.errorf("function %s has no body", funcKey(fn))
		return
	}
	g.entry = g.vc.NewRootHeap()
	g.model.declRoot()
	alloc0 := g.model.allocNow(g.entry)
	g.vc.Def(App(">", alloc0, "0"))
	// parameters and free variables
	env := &Env{g: g, pkg: fn.Pkg.Pkg, vars: map[string]Val{}, now: g.entry, old: g.entry}
	bind := func(name string, v ssa.Value, i int, isRecv bool) {
		sym := "p." + mangle(name)
		if name == "" || name == "_" {
			sym = fmt.Sprintf("p.arg%d", i)
		}
		g.vc.Declare(sym, nil, sortOf(v.Type()))
		g.vals[v] = sym
		val := Val{T: sym, Ty: v.Type()}
		if name != "" && name != "_" {
			env.vars[name] = val
		}
		env.vars[fmt.Sprintf("arg%d", i)] = val
		if isRecv {
			env.vars["recv"] = val
		}
		if isRefLike(v.Type()) {
			g.vc.Def(g.model.allocatedBefore(sym, alloc0))
		}
		if g.contract.Flags["checked_arith"] != "" && isInteger(v.Type()) {
			g.vc.Def(And(App("<=", "(- 9223372036854775808)", sym), App("<=", sym, "9223372036854775807")))
		}
		if _, ok := v.Type().Underlying().(*types.Slice); ok {
			g.vc.AssumeAt("true", And(g.model.wfSlice(sym), g.model.allocatedBefore(g.model.slBase(sym), alloc0)), "slice parameter is well-formed and its array exists")
		}
	}
	hasRecv := fn.Signature.Recv() != nil
	for i, p := range fn.Params {
		idx := i
		if hasRecv {
			idx = i - 1
		}
		bind(p.Name(), p, idx, hasRecv && i == 0)
	}
	// A contract written against the parameter names of the baseline keeps binding after a parameter is renamed:
	// the name recorded in baseline/params.lock for position i denotes the current parameter i (unless shadowed).
	if base := baselineParams[key]; len(base) == len(fn.Params) {
		for i, p := range fn.Params {
			if base[i] != "" && base[i] != "_" && base[i] != p.Name() {
				if _, taken := env.vars[base[i]]; !taken {
					env.vars[base[i]] = Val{T: g.vals[p], Ty: p.Type()}
					g.vc.abstract(fmt.Sprintf("parameter %d was named %q when the contract was locked and is now %q: the contract's name is bound positionally", i, base[i], p.Name()))
				}
			}
		}
	}
	for i, fv := range fn.FreeVars {
		sym := "fv." + mangle(fv.Name())
		g.vc.Declare(sym, nil, sortOf(fv.Type()))
		g.vals[fv] = sym
		// a free variable is a pointer to the captured cell; expose both the cell value (by name) and the pointer
		env.vars["fv$"+fv.Name()] = Val{T: sym, Ty: fv.Type()}
		_ = i
		g.vc.Def(g.model.allocatedBefore(sym, alloc0))
	}
	g.env0 = env
	// captured variables readable by name: value in the *current* heap -> resolved in locals callback
	g.findLoops()
	// lets + requires
	for _, l := range g.contract.Lets {
		v, err := env.EvalVal(l.E)
		if err != nil {
			g.errorf("%s: let %s: %v", g.contract.File, l.Name, err)
			continue
		}
		env.vars[l.Name] = v
	}
	for _, r := range g.contract.Requires {
		t, err := g.envAt(g.entry, nil).EvalBool(r.E)
		if err != nil {
			g.errorf("%s: requires %s: %v", r.Line, r.Name, err)
			continue
		}
		g.vc.AssumeAt("true", t, "requires "+r.Text)
	}
	g.assumeAxioms(env)

	// block order: reverse postorder ignoring back edges
	order := g.rpo()
	for _, b := range order {
		g.blockCur = b
		g.processBlock(b)
	}
	g.curLoops = nil
	g.finishReturns()
	// unused loop specs are contract errors
	for n := range g.contract.Loops {
		if n < 1 || n > len(g.loopList) {
			g.vc.abstract(fmt.Sprintf("contract names loop %d but the function has %d loop(s): those invariants are unused", n, len(g.loopList)))
		}
	}
}

func (g *Gen) assumeAxioms(env *Env) {
	for _, ax := range g.specs.Axioms {
		e := &Env{g: g, pkg: g.fn.Pkg.Pkg, vars: map[string]Val{}, now: g.entry, old: g.entry}
		t, err := e.EvalBool(ax.E)
		if err != nil {
			// axioms may mention symbols irrelevant to this package; skip silently only if unknown identifier
			continue
		}
		// an axiom is only relevant to queries that mention one of its uninterpreted symbols
		g.vc.axioms = append(g.vc.axioms, axiomDef{text: t, syms: axiomSymRe.FindAllString(t, -1)})
	}
}

// envAt builds an evaluation environment for the given current heap.
func (g *Gen) envAt(h *Heap, at *ssa.BasicBlock) *Env {
	e := g.env0.clone()
	e.now = h
	e.old = g.entry
	e.locals = func(name string) (Val, bool) { return g.localByName(name, at, h) }
	e.seen = func(n int, k Val, hh *Heap) (string, bool) {
		var ri *rangeInfo
		if n == 0 {
			// innermost enclosing loop with a range iterator
			for i := len(g.curLoops) - 1; i >= 0 && ri == nil; i-- {
				if len(g.curLoops[i].ranges) > 0 {
					ri = g.curLoops[i].ranges[0]
				}
			}
		} else if n >= 1 && n <= len(g.loopList) && len(g.loopList[n-1].ranges) > 0 {
			ri = g.loopList[n-1].ranges[0]
		}
		if ri == nil {
			return "", false
		}
		return Sel(hh.Get(ri.seenVar, ri.seenSort), k.T), true
	}
	return e
}

// localByName resolves a source-level local variable (or captured variable) at block `at`.
// baselineLocals: ordered local-variable names per function on the unchanged tree (baseline/locals.lock).
var baselineLocals = map[string][]string{}

// localNames: the distinct names of the function's local variables (not parameters), in order of declaration.
func localNames(fn *ssa.Function) []string {
	type nv struct {
		name string
		pos  token.Pos
	}
	var all []nv
	seen := map[types.Object]bool{}
	params := map[string]bool{}
	for _, p := range fn.Params {
		params[p.Name()] = true
	}
	for _, b := range fn.Blocks {
		for _, in := range b.Instrs {
			if d, ok := in.(*ssa.DebugRef); ok {
				if obj, ok := d.Object().(*types.Var); ok && !seen[obj] && !obj.IsField() && !params[obj.Name()] && obj.Pkg() != nil && obj.Parent() != obj.Pkg().Scope() {
					seen[obj] = true
					all = append(all, nv{obj.Name(), obj.Pos()})
				}
			}
		}
	}
	sort.Slice(all, func(i, j int) bool { return all[i].pos < all[j].pos })
	var out []string
	for _, fv := range fn.FreeVars {
		out = append(out, fv.Name()) // captured variables first (a rename in the enclosing function renames them too)
	}
	for _, x := range all {
		out = append(out, x.name)
	}
	return out
}

// localAliases: names of the baseline that no longer exist, mapped to the local now declared at the same position
// (same number of locals in the same order: a pure rename).
func (g *Gen) localAliases() map[string]string {
	if g.aliases != nil {
		return g.aliases
	}
	g.aliases = map[string]string{}
	base := baselineLocals[funcKey(g.fn)]
	cur := localNames(g.fn)
	if len(base) == 0 || len(base) != len(cur) {
		return g.aliases
	}
	have := map[string]bool{}
	for _, n := range cur {
		have[n] = true
	}
	for i := range base {
		if base[i] != cur[i] && !have[base[i]] {
			g.aliases[base[i]] = cur[i]
		}
	}
	return g.aliases
}

func (g *Gen) localByName(name string, at *ssa.BasicBlock, h *Heap) (Val, bool) {
	if a, ok := g.localAliases()[name]; ok {
		name = a
	}
	// captured variable of a closure
	for _, fv := range g.fn.FreeVars {
		if fv.Name() == name {
			pt := fv.Type().Underlying().(*types.Pointer).Elem()
			return g.loadThrough(h, fv, pt), true
		}
	}
	if name == "idx" && at != nil {
		// the range index of the loop whose header is `at`, else of the innermost enclosing loop
		cands := []*ssa.BasicBlock{at}
		for i := len(g.loopList) - 1; i >= 0; i-- {
			if g.loopList[i].body[at] && g.loopList[i].header != at {
				cands = append(cands, g.loopList[i].header)
			}
		}
		for _, blk := range cands {
			for _, in := range blk.Instrs {
				if phi, ok := in.(*ssa.Phi); ok && phi.Comment == "rangeindex" {
					if _, done := g.vals[phi]; done || blk == at {
						return Val{T: g.val(phi), Ty: phi.Type()}, true
					}
				}
			}
		}
	}
	// phi in the block named like the variable
	if at != nil {
		for _, in := range at.Instrs {
			if phi, ok := in.(*ssa.Phi); ok && phi.Comment == name {
				return Val{T: g.val(phi), Ty: phi.Type()}, true
			}
		}
	}
	// allocs (address-taken or escaping locals) named like the variable
	var cand ssa.Value
	for _, b := range g.fn.Blocks {
		for _, in := range b.Instrs {
			if a, ok := in.(*ssa.Alloc); ok && a.Comment == name {
				if _, done := g.vals[a]; done {
					cand = a
				}
			}
		}
	}
	if cand != nil {
		pt := cand.Type().Underlying().(*types.Pointer).Elem()
		return g.loadThrough(h, cand, pt), true
	}
	// a variable that only ever denotes one SSA value (assigned once): use that value wherever it dominates
	{
		var only ssa.Value
		multiple := false
		for _, b := range g.fn.Blocks {
			for _, in := range b.Instrs {
				if d, ok := in.(*ssa.DebugRef); ok && !d.IsAddr && d.Object() != nil && d.Object().Name() == name {
					if c, isC := d.X.(*ssa.Const); isC && c.Value == nil {
						continue // zero value recorded at the declaration
					}
					if only == nil {
						only = d.X
					} else if only != d.X {
						multiple = true
					}
				}
			}
		}
		if only != nil && !multiple {
			if _, done := g.vals[only]; done {
				return Val{T: g.val(only), Ty: only.Type()}, true
			}
			if _, isC := only.(*ssa.Const); isC {
				return Val{T: g.val(only), Ty: only.Type()}, true
			}
		}
	}
	// DebugRef: closest dominating definition
	var best ssa.Value
	var bestBlock *ssa.BasicBlock
	bestIdx := -1
	for _, b := range g.fn.Blocks {
		if at != nil && !(b == at || b.Dominates(at)) {
			continue
		}
		for i, in := range b.Instrs {
			if d, ok := in.(*ssa.DebugRef); ok && !d.IsAddr {
				if id, ok := d.Expr.(interface{ String() string }); ok {
					_ = id
				}
				if obj := d.Object(); obj != nil && obj.Name() == name {
					if _, done := g.vals[d.X]; !done {
						if _, isC := d.X.(*ssa.Const); !isC {
							continue
						}
					}
					if bestBlock == nil || bestBlock.Dominates(b) || (bestBlock == b && i > bestIdx) {
						best, bestBlock, bestIdx = d.X, b, i
					}
				}
			}
		}
	}
	if best != nil {
		return Val{T: g.val(best), Ty: best.Type()}, true
	}
	return Val{}, false
}

// constCapture: the captured variable is assigned exactly once (the spill of a parameter or a single
// initialisation in the enclosing function) and never inside this closure: its cell is a constant.
func (g *Gen) constCapture(fv *ssa.FreeVar) bool {
	fn := g.fn
	idx := -1
	for i, f := range fn.FreeVars {
		if f == fv {
			idx = i
		}
	}
	if idx < 0 || fn.Parent() == nil {
		return false
	}
	stores := func(f *ssa.Function, isTarget func(ssa.Value) bool) int {
		n := 0
		for _, b := range f.Blocks {
			for _, in := range b.Instrs {
				if st, ok := in.(*ssa.Store); ok && isTarget(st.Addr) {
					n++
				}
			}
		}
		return n
	}
	if stores(fn, func(v ssa.Value) bool { return v == ssa.Value(fv) }) > 0 {
		return false
	}
	// find the binding in the parent
	var cell ssa.Value
	for _, b := range fn.Parent().Blocks {
		for _, in := range b.Instrs {
			if mc, ok := in.(*ssa.MakeClosure); ok && mc.Fn == ssa.Value(fn) && idx < len(mc.Bindings) {
				cell = mc.Bindings[idx]
			}
		}
	}
	if cell == nil {
		return false
	}
	if _, isAlloc := cell.(*ssa.Alloc); !isAlloc {
		return false
	}
	if stores(fn.Parent(), func(v ssa.Value) bool { return v == cell }) > 1 {
		return false
	}
	// other closures sharing the cell must not store to it either
	for _, an := range fn.Parent().AnonFuncs {
		if an == fn {
			continue
		}
		for i, f := range an.FreeVars {
			_ = i
			if f.Name() == fv.Name() && stores(an, func(v ssa.Value) bool { return v == ssa.Value(f) }) > 0 {
				return false
			}
		}
	}
	return true
}

func (g *Gen) constCaptureVal(fv *ssa.FreeVar, pt types.Type) string {
	sym := "cap." + mangle(fv.Name())
	if !g.vc.declSet[sym] {
		g.vc.Declare(sym, nil, sortOf(pt))
		arr := g.entry.Get(cellVar(pt), ArrSort(SInt, sortOf(pt)))
		g.vc.Def(Eq(sym, Sel(arr, g.val(fv))))
		if isRefLike(pt) {
			g.vc.Def(g.model.allocatedBefore(sym, g.model.allocNow(g.entry)))
		}
	}
	return sym
}

func (g *Gen) loadThrough(h *Heap, ptr ssa.Value, pt types.Type) Val {
	if fv, ok := ptr.(*ssa.FreeVar); ok && !isStruct(pt) && g.constCapture(fv) {
		return Val{T: g.constCaptureVal(fv, pt), Ty: pt}
	}
	if isStruct(pt) {
		return Val{T: g.val(ptr), Ty: pt, Addr: true}
	}
	arr := h.Get(cellVar(pt), ArrSort(SInt, sortOf(pt)))
	return Val{T: Sel(arr, g.val(ptr)), Ty: pt}
}

// ---------- CFG helpers ----------

func (g *Gen) findLoops() {
	fn := g.fn
	for _, b := range fn.Blocks {
		for _, s := range b.Succs {
			if s.Dominates(b) {
				g.backEdge[[2]int{b.Index, s.Index}] = true
				li := g.loops[s]
				if li == nil {
					li = &loopInfo{header: s, body: map[*ssa.BasicBlock]bool{s: true}}
					g.loops[s] = li
				}
				// natural loop: blocks reaching b without passing through s
				stack := []*ssa.BasicBlock{b}
				for len(stack) > 0 {
					x := stack[len(stack)-1]
					stack = stack[:len(stack)-1]
					if li.body[x] {
						continue
					}
					li.body[x] = true
					stack = append(stack, x.Preds...)
				}
			}
		}
	}
	for _, b := range fn.Blocks {
		if li := g.loops[b]; li != nil {
			li.ordinal = len(g.loopList) + 1
			li.nameOrd = li.ordinal
			g.loopList = append(g.loopList, li)
		}
	}
	// Contracts name loops by ordinal. The ordinals of the baseline are recorded with a signature per loop (what kind of
	// loop over what type); if the function now has a different number of loops (one was extracted into a helper, one was
	// added), the contract's ordinals are re-mapped by aligning the two signature sequences, so that the invariants of
	// the loops that are still there keep binding to them.
	var sigs []string
	for _, li := range g.loopList {
		sigs = append(sigs, loopSignature(li))
	}
	currentLoopSigs[funcKey(fn)] = sigs
	mapping := alignLoops(baselineLoops[funcKey(fn)], sigs)
	for _, li := range g.loopList {
		li.spec = g.contract.Loops[li.ordinal]
	}
	if mapping != nil {
		for _, li := range g.loopList {
			li.spec = nil
		}
		for baseOrd, curOrd := range mapping {
			if spec, ok := g.contract.Loops[baseOrd]; ok && curOrd >= 1 && curOrd <= len(g.loopList) {
				g.loopList[curOrd-1].spec = spec
				// obligations keep the baseline ordinal in their names, so that the lock still recognises them
				g.loopList[curOrd-1].nameOrd = baseOrd
			}
		}
		for baseOrd := 1; baseOrd <= len(baselineLoops[funcKey(fn)]); baseOrd++ {
			if _, ok := mapping[baseOrd]; !ok {
				if droppedLoops[funcKey(fn)] == nil {
					droppedLoops[funcKey(fn)] = map[int]bool{}
				}
				droppedLoops[funcKey(fn)][baseOrd] = true
			}
		}
		g.vc.abstract(fmt.Sprintf("the function has %d loop(s), the baseline had %d: loop invariants re-bound by loop signature %v", len(sigs), len(baselineLoops[funcKey(fn)]), mapping))
	}
}

// baselineLoops / currentLoopSigs: loop signatures per function (baseline/loops.lock, and this run).
var baselineLoops = map[string][]string{}
var currentLoopSigs = map[string][]string{}

// droppedLoops: baseline loop ordinals per function that no loop of the current function aligns with (the loop was
// removed or moved into a helper). Their invariant obligations cannot be generated; the function's postconditions still
// have to be proved without them.
var droppedLoops = map[string]map[int]bool{}

// loopSignature: kind of loop and the type it ranges over (no variable names: renames must not matter).
func loopSignature(li *loopInfo) string {
	// the functions called in the loop body distinguish loops over the same type
	calls := map[string]bool{}
	for b := range li.body {
		for _, in := range b.Instrs {
			if ci, ok := in.(ssa.CallInstruction); ok {
				if sc := ci.Common().StaticCallee(); sc != nil {
					calls[lastSeg(funcKey(sc))] = true
				} else if ci.Common().IsInvoke() {
					calls[ci.Common().Method.Name()] = true
				}
			}
		}
	}
	var cs []string
	for c := range calls {
		cs = append(cs, c)
	}
	sort.Strings(cs)
	return loopKind(li) + " calls " + strings.Join(cs, ",")
}

func loopKind(li *loopInfo) string {
	for _, in := range li.header.Instrs {
		switch x := in.(type) {
		case *ssa.Next:
			if r, ok := x.Iter.(*ssa.Range); ok {
				return "range " + r.X.Type().String()
			}
			return "range"
		case *ssa.Phi:
			if x.Comment == "rangeindex" {
				// the ranged slice is the operand of the len() in the header
				for _, in2 := range li.header.Instrs {
					if c, ok := in2.(*ssa.Call); ok {
						if b, ok := c.Call.Value.(*ssa.Builtin); ok && b.Name() == "len" && len(c.Call.Args) == 1 {
							return "rangeindex " + c.Call.Args[0].Type().String()
						}
					}
				}
				// len() may have been hoisted into the preheader
				return "rangeindex"
			}
		}
	}
	return "for"
}

// alignLoops maps baseline loop ordinals to current ordinals (both 1-based) by a longest-common-subsequence alignment of
// the signature sequences. nil = identical shape (or no baseline): ordinals are used as written.
func alignLoops(base, cur []string) map[int]int {
	if base == nil || len(base) == len(cur) {
		return nil
	}
	n, m := len(base), len(cur)
	L := make([][]int, n+1)
	for i := range L {
		L[i] = make([]int, m+1)
	}
	for i := n - 1; i >= 0; i-- {
		for j := m - 1; j >= 0; j-- {
			if base[i] == cur[j] {
				L[i][j] = L[i+1][j+1] + 1
			} else if L[i+1][j] >= L[i][j+1] {
				L[i][j] = L[i+1][j]
			} else {
				L[i][j] = L[i][j+1]
			}
		}
	}
	out := map[int]int{}
	for i, j := 0, 0; i < n && j < m; {
		if base[i] == cur[j] {
			out[i+1] = j + 1
			i++
			j++
		} else if L[i+1][j] >= L[i][j+1] {
			i++
		} else {
			j++
		}
	}
	return out
}

func (g *Gen) rpo() []*ssa.BasicBlock {
	seen := map[*ssa.BasicBlock]bool{}
	var post []*ssa.BasicBlock
	var dfs func(b *ssa.BasicBlock)
	dfs = func(b *ssa.BasicBlock) {
		seen[b] = true
		for _, s := range b.Succs {
			if g.backEdge[[2]int{b.Index, s.Index}] {
				continue
			}
			if !seen[s] {
				dfs(s)
			}
		}
		post = append(post, b)
	}
	dfs(g.fn.Blocks[0])
	for i, j := 0, len(post)-1; i < j; i, j = i+1, j-1 {
		post[i], post[j] = post[j], post[i]
	}
	return post
}

func (g *Gen) edgeCond(from, to *ssa.BasicBlock) string {
	last := from.Instrs[len(from.Instrs)-1]
	if iff, ok := last.(*ssa.If); ok {
		c := g.val(iff.Cond)
		if from.Succs[0] == to && from.Succs[1] == to {
			return "true"
		}
		if from.Succs[0] == to {
			return c
		}
		return Not(c)
	}
	return "true"
}

// ---------- values ----------

func (g *Gen) val(v ssa.Value) string {
	if t, ok := g.vals[v]; ok {
		return t
	}
	switch x := v.(type) {
	case *ssa.Const:
		return g.constTerm(x)
	case *ssa.Function:
		sym := "fn." + mangle(funcKey(x))
		g.vc.Declare(sym, nil, SInt)
		g.vc.Def(Not(Eq(sym, "0")))
		// a plain function value designates its function like a closure does (fnof(), isclosure())
		g.vc.Declare("closfn", []Sort{SInt}, SInt)
		g.vc.Def(Eq(App("closfn", sym), g.fnTag(funcKey(x))))
		g.vals[v] = sym
		return sym
	case *ssa.Global:
		t := g.globalAddr(x.Object().(*types.Var))
		g.vals[v] = t
		return t
	case *ssa.Builtin:
		return "0"
	case *ssa.FieldAddr:
		// address of a field used as a value
		st, tn, _ := structOf(x.X.Type())
		f := st.Field(x.Field)
		base := g.val(x.X)
		if isStruct(f.Type()) {
			t := g.model.subAddr(tn, f.Name(), base)
			return t
		}
		fn := "fa." + tn + "." + f.Name()
		g.vc.Declare(fn, []Sort{SInt}, SInt)
		g.vc.abstract(fmt.Sprintf("address of scalar field %s.%s escapes (writes through it are not tracked)", tn, f.Name()))
		return App(fn, base)
	}
	g.errorf("value %s (%T) used before definition in %s", v.Name(), v, funcKey(g.fn))
	sym := g.vc.Fresh("undef", sortOf(v.Type()))
	g.vals[v] = sym
	return sym
}

func (g *Gen) globalAddr(o *types.Var) string {
	if t, ok := g.globals[o]; ok {
		return t
	}
	pk := ""
	if o.Pkg() != nil {
		pk = shortPkg(o.Pkg().Path())
	}
	sym := "glob." + mangle(pk+"."+o.Name())
	g.vc.Declare(sym, nil, SInt)
	g.model.declRoot()
	g.vc.Def(And(App("<", sym, "0"), Eq(App("root", sym), sym)))
	// distinct globals: give each a distinct negative numeral
	g.vc.Def(Eq(sym, IntLit(int64(-1000-len(g.globals)))))
	g.globals[o] = sym
	return sym
}

func (g *Gen) constTerm(c *ssa.Const) string {
	t := c.Type()
	if c.Value == nil {
		return g.model.zeroVal(t)
	}
	switch c.Value.Kind() {
	case constant.Bool:
		if constant.BoolVal(c.Value) {
			return "true"
		}
		return "false"
	case constant.String:
		return g.vc.StrLit(constant.StringVal(c.Value))
	case constant.Int:
		if isFloat(t) {
			return g.floatConst(c.Value.ExactString())
		}
		if i, ok := constant.Int64Val(c.Value); ok {
			return IntLit(i)
		}
		return c.Value.ExactString()
	case constant.Float:
		return g.floatConst(c.Value.ExactString())
	}
	return g.vc.Fresh("const", sortOf(t))
}

func (g *Gen) floatConst(s string) string {
	sym := "fconst." + mangle(s)
	g.vc.Declare(sym, nil, SInt)
	return sym
}

func (g *Gen) setVal(v ssa.Value, t string) { g.vals[v] = t }

func (g *Gen) defVal(v ssa.Value, t string) string {
	// name the value so that models are readable
	sym := fmt.Sprintf("%s.%s", "v", mangle(v.Name()))
	if g.vc.declSet[sym] {
		sym = g.vc.Fresh("v."+v.Name(), sortOf(v.Type()))
	} else {
		g.vc.Declare(sym, nil, sortOf(v.Type()))
	}
	g.vc.Def(Eq(sym, t))
	g.vals[v] = sym
	return sym
}

func (g *Gen) freshVal(v ssa.Value) string {
	sym := fmt.Sprintf("%s.%s", "v", mangle(v.Name()))
	if g.vc.declSet[sym] {
		sym = g.vc.Fresh("v."+v.Name(), sortOf(v.Type()))
	} else {
		g.vc.Declare(sym, nil, sortOf(v.Type()))
	}
	g.vals[v] = sym
	return sym
}

// ---------- arithmetic helpers ----------

func (g *Gen) goDiv(a, b string) string {
	// Go truncated division expressed with SMT floor division
	return Ite(App(">=", a, "0"),
		Ite(App(">", b, "0"), App("div", a, b), App("-", App("div", a, App("-", b)))),
		Ite(App(">", b, "0"), App("-", App("div", App("-", a), b)), App("div", App("-", a), App("-", b))))
}

func (g *Gen) goMod(a, b string) string {
	return App("-", a, App("*", b, g.goDiv(a, b)))
}

func (g *Gen) uninterp(name string, args []string, argSorts []Sort, res Sort) string {
	g.vc.Declare(name, argSorts, res)
	return App(name, args...)
}

// ---------- blocks ----------

func (g *Gen) processBlock(b *ssa.BasicBlock) {
	vc := g.vc
	var h *Heap
	var reach string
	li := g.loops[b]
	// enclosing loops (for seen())
	g.curLoops = nil
	for _, l := range g.loopList {
		if l.body[b] {
			g.curLoops = append(g.curLoops, l)
		}
	}
	if b.Index == 0 {
		h = g.entry
		reach = "true"
		if g.startHeap != nil {
			h, reach = g.startHeap, g.startReach
		}
	} else {
		var edges []heapEdge
		var conds []string
		for _, p := range b.Preds {
			if g.backEdge[[2]int{p.Index, b.Index}] {
				continue
			}
			pr, ok := g.reach[p]
			if !ok {
				continue // unreachable predecessor (e.g. recover block)
			}
			c := And(pr, g.edgeCond(p, b))
			conds = append(conds, c)
			edges = append(edges, heapEdge{c, g.outHeap[p]})
		}
		if len(edges) == 0 {
			return // unreachable block
		}
		rs := fmt.Sprintf("R.b%d", b.Index)
		if g.inlineID > 0 {
			rs = fmt.Sprintf("R.i%d.b%d", g.inlineID, b.Index)
		}
		vc.Declare(rs, nil, SBool)
		vc.Def(Eq(rs, Or(conds...)))
		reach = rs
		h = vc.JoinHeaps(edges)
		// phis (non-loop-header): defined per incoming edge
		if li == nil {
			for _, in := range b.Instrs {
				phi, ok := in.(*ssa.Phi)
				if !ok {
					break
				}
				sym := g.freshVal(phi)
				for i, p := range b.Preds {
					pr, ok := g.reach[p]
					if !ok {
						continue
					}
					vc.Def(Imp(And(pr, g.edgeCond(p, b)), Eq(sym, g.val(phi.Edges[i]))))
				}
			}
		}
	}
	if li != nil {
		h = g.enterLoop(li, b, h, reach)
	}
	g.reach[b] = reach
	for _, in := range b.Instrs {
		if _, ok := in.(*ssa.Phi); ok {
			continue
		}
		h = g.instr(in, h, reach)
	}
	g.outHeap[b] = h
	// back edges out of this block: check invariants
	for _, s := range b.Succs {
		if g.backEdge[[2]int{b.Index, s.Index}] {
			g.checkInvariant(g.loops[s], b, h, And(reach, g.edgeCond(b, s)), "invariant-preserved")
		}
	}
}

// enterLoop: assert invariants on entry edges, havoc loop-modified state, assume invariants.
func (g *Gen) enterLoop(li *loopInfo, b *ssa.BasicBlock, h *Heap, reach string) *Heap {
	if li.spec == nil {
		if g.contract.File != "" {
			// sound default: the loop's write set is havocked and nothing is assumed about it. On the unchanged tree
			// every loop of a function under contract has a declared invariant (tools/lint_contracts.sh checks it);
			// a loop added by a later change is over-approximated instead of rejected.
			g.vc.abstract(fmt.Sprintf("loop %d has no declared invariant: its write set is havocked, invariant true", li.ordinal))
		}
		li.spec = &LoopSpec{}
	}
	// entry check, per entry edge
	for _, p := range b.Preds {
		if g.backEdge[[2]int{p.Index, b.Index}] {
			continue
		}
		pr, ok := g.reach[p]
		if !ok {
			continue
		}
		g.checkInvariant(li, p, g.outHeap[p], And(pr, g.edgeCond(p, b)), "invariant-entry")
	}
	// havoc
	ws := &WriteSet{Vars: map[string]Sort{}}
	freshScope = li.body
	for blk := range li.body {
		for _, in := range blk.Instrs {
			g.w.instrWrites(in, ws, g)
		}
	}
	freshScope = nil
	var h2 *Heap
	if ws.All {
		h2 = g.havocAll(h, reach, "loop body: "+ws.Why)
	} else {
		var names []string
		for n, s := range ws.Vars {
			g.vc.noteHeapVar(n, s)
			names = append(names, n)
		}
		sort.Strings(names)
		names = append(names, allocVar)
		h2 = h.HavocVars(names)
		g.vc.AssumeAt(reach, App(">=", g.model.allocNow(h2), g.model.allocNow(h)), "allocation counter is monotone")
		g.assumeMonotone(h, h2, reach, names)
		g.assumeFreshOnly(h, h2, reach, ws)
		// variables the loop writes only inside objects allocated by THIS FUNCTION (before or inside the loop):
		// every object that existed at function entry is untouched by the loop
		ws2 := &WriteSet{Vars: map[string]Sort{}}
		freshScope = nil
		for blk := range li.body {
			for _, in := range blk.Instrs {
				g.w.instrWrites(in, ws2, g)
			}
		}
		if !ws2.All {
			var ns []string
			for n := range ws2.FreshOnly {
				if !ws.FreshOnly[n] {
					ns = append(ns, n)
				}
			}
			sort.Strings(ns)
			a0 := g.model.allocNow(g.entry)
			for _, n := range ns {
				srt := ws2.Vars[n]
				if !strings.HasPrefix(string(srt), "(Array Int ") {
					continue
				}
				a, b := h.Get(n, srt), h2.Get(n, srt)
				g.vc.AssumeAt(reach, fmt.Sprintf("(forall ((fr Int)) (! (=> (< (root fr) %s) (= (select %s fr) (select %s fr))) :pattern ((select %s fr))))", a0, b, a, b), n+": objects that existed at function entry are untouched by the loop")
			}
		}
		if ws.Yields {
			h2 = g.havocAcquires(h2, reach, ws.Recvs)
		}
	}
	// phis are arbitrary
	for _, in := range b.Instrs {
		phi, ok := in.(*ssa.Phi)
		if !ok {
			break
		}
		g.freshVal(phi)
	}
	// assume invariants
	env := g.envAt(h2, b)
	for _, inv := range li.spec.Invariants {
		t, err := env.EvalBool(inv.E)
		if err != nil {
			g.errorf("%s: loop %d invariant %s: %v", inv.Line, li.ordinal, inv.Name, err)
			continue
		}
		g.vc.AssumeAt(reach, t, fmt.Sprintf("loop %d invariant %s", li.ordinal, inv.Text))
	}
	return h2
}

// checkInvariant asserts the loop invariants on the edge from block `from` to the header.
func (g *Gen) checkInvariant(li *loopInfo, from *ssa.BasicBlock, h *Heap, guard string, kind string) {
	if li.spec == nil {
		return
	}
	hdr := li.header
	// bind header phis to the edge values
	saved := map[ssa.Value]string{}
	pi := -1
	for i, p := range hdr.Preds {
		if p == from {
			pi = i
		}
	}
	for _, in := range hdr.Instrs {
		phi, ok := in.(*ssa.Phi)
		if !ok {
			break
		}
		if old, ok := g.vals[phi]; ok {
			saved[phi] = old
		}
		g.vals[phi] = g.val(phi.Edges[pi])
	}
	env := g.envAt(h, hdr)
	savedLoops := g.curLoops
	g.curLoops = nil
	for _, l := range g.loopList {
		if l.body[hdr] {
			g.curLoops = append(g.curLoops, l)
		}
	}
	for i, inv := range li.spec.Invariants {
		t, err := env.EvalBool(inv.E)
		if err != nil {
			g.errorf("%s: loop %d invariant %s: %v", inv.Line, li.ordinal, inv.Name, err)
			continue
		}
		label := inv.Name
		if label == "" {
			label = fmt.Sprintf("%d", i+1)
		}
		name := fmt.Sprintf("%s#%s:%d:%s", funcKey(g.fn), kind, li.nameOrd, label)
		if kind == "invariant-entry" {
			// several entry edges are rare; disambiguate by count
			n := 0
			for _, o := range g.vc.Obls {
				if strings.HasPrefix(o.Name, name) {
					n++
				}
			}
			if n > 0 {
				name = fmt.Sprintf("%s~%d", name, n+1)
			}
		} else {
			n := 0
			for _, o := range g.vc.Obls {
				if strings.HasPrefix(o.Name, name) {
					n++
				}
			}
			if n > 0 {
				name = fmt.Sprintf("%s~%d", name, n+1)
			}
		}
		g.vc.Assert(name, kind, guard, t, g.pos(hdr.Instrs[0].Pos()), inv.Text)
	}
	g.curLoops = savedLoops
	for _, in := range hdr.Instrs {
		phi, ok := in.(*ssa.Phi)
		if !ok {
			break
		}
		if old, ok := saved[phi]; ok {
			g.vals[phi] = old
		} else {
			delete(g.vals, phi)
		}
	}
}

// assumeFreshOnly: variables that the havocked code writes only inside objects it allocated itself keep
// the contents of every object that existed before.
func (g *Gen) assumeFreshOnly(h, h2 *Heap, guard string, ws *WriteSet) {
	a0 := g.model.allocNow(h)
	var names []string
	for n := range ws.FreshOnly {
		names = append(names, n)
	}
	sort.Strings(names)
	for _, n := range names {
		s := ws.Vars[n]
		if !strings.HasPrefix(string(s), "(Array Int ") {
			continue
		}
		a, b := h.Get(n, s), h2.Get(n, s)
		g.vc.AssumeAt(guard, fmt.Sprintf("(forall ((fr Int)) (! (=> (< (root fr) %s) (= (select %s fr) (select %s fr))) :pattern ((select %s fr))))", a0, b, a, b), n+": objects that existed before are untouched")
	}
}

// havocAll forgets the whole heap but keeps monotone facts.
func (g *Gen) havocAll(h *Heap, guard string, why string) *Heap {
	g.vc.abstract("havoc of the whole modelled heap: " + why)
	h2 := h.HavocAll()
	g.vc.AssumeAt(guard, App(">=", g.model.allocNow(h2), g.model.allocNow(h)), "allocation counter is monotone")
	g.assumeMonotone(h, h2, guard, nil)
	return h2
}

// assumeMonotone: latch ghosts only ever go from false to true.
func (g *Gen) assumeMonotone(h, h2 *Heap, guard string, names []string) {
	for _, gd := range g.specs.sortedGhosts() {
		if gd.Counter && len(gd.Params) == 0 {
			vn := "G." + gd.Name
			if names != nil {
				found := false
				for _, n := range names {
					if n == vn {
						found = true
					}
				}
				if !found {
					continue
				}
			}
			g.vc.AssumeAt(guard, App(">=", h2.Get(vn, SInt), h.Get(vn, SInt)), "counter "+gd.Name+" only grows")
			continue
		}
		if !gd.Monotone || gd.Kind != "ghost" {
			continue
		}
		vn := "G." + gd.Name
		if names != nil {
			found := false
			for _, n := range names {
				if n == vn {
					found = true
				}
			}
			if !found {
				continue
			}
		}
		var sorts []Sort
		ok := true
		for _, p := range gd.Params {
			t := g.resolveType(p, g.fn.Pkg.Pkg)
			if t == nil {
				ok = false
				break
			}
			sorts = append(sorts, sortOf(t))
		}
		if !ok {
			continue
		}
		srt := ghostSort(sorts, SBool)
		a, b := h.Get(vn, srt), h2.Get(vn, srt)
		if len(sorts) == 0 {
			g.vc.AssumeAt(guard, Imp(a, b), "latch "+gd.Name+" is monotone")
			continue
		}
		var bs, idx []string
		for i, s := range sorts {
			bs = append(bs, fmt.Sprintf("(m%d %s)", i, s))
			idx = append(idx, fmt.Sprintf("m%d", i))
		}
		sa, sb := a, b
		for _, i := range idx {
			sa, sb = Sel(sa, i), Sel(sb, i)
		}
		g.vc.AssumeAt(guard, fmt.Sprintf("(forall (%s) (! (=> %s %s) :pattern (%s)))", strings.Join(bs, " "), sa, sb, sb), "latch "+gd.Name+" is monotone")
	}
}

// resolveType parses a textual type in the scope of pkg.
func (g *Gen) resolveType(s string, pkg *types.Package) types.Type {
	return g.w.resolveType(s, pkg)
}

func (w *World) resolveType(s string, pkg *types.Package) types.Type {
	s = strings.TrimSpace(s)
	switch s {
	case "int":
		return tInt
	case "bool":
		return tBool
	case "string":
		return tString
	case "ref":
		return tRef
	case "error":
		return types.Universe.Lookup("error").Type()
	case "any":
		return types.NewInterfaceType(nil, nil)
	case "int64", "int32", "uint", "uint16", "uint32", "uint64", "float64", "byte":
		return types.Universe.Lookup(s).Type()
	}
	if strings.HasPrefix(s, "*") {
		e := w.resolveType(s[1:], pkg)
		if e == nil {
			return nil
		}
		return types.NewPointer(e)
	}
	if strings.HasPrefix(s, "[]") {
		e := w.resolveType(s[2:], pkg)
		if e == nil {
			return nil
		}
		return types.NewSlice(e)
	}
	if strings.HasPrefix(s, "map[") {
		depth := 0
		for i := 3; i < len(s); i++ {
			if s[i] == '[' {
				depth++
			} else if s[i] == ']' {
				depth--
				if depth == 0 {
					k := w.resolveType(s[4:i], pkg)
					v := w.resolveType(s[i+1:], pkg)
					if k == nil || v == nil {
						return nil
					}
					return types.NewMap(k, v)
				}
			}
		}
		return nil
	}
	if i := strings.LastIndex(s, "."); i >= 0 {
		pn, tn := s[:i], s[i+1:]
		var p *types.Package
		if pkg != nil {
			p = w.importedPkg(pkg, pn)
		}
		if p == nil {
			p = w.pkgByShort(pn)
		}
		if p == nil {
			return nil
		}
		if o := p.Scope().Lookup(tn); o != nil {
			if _, ok := o.(*types.TypeName); ok {
				return o.Type()
			}
		}
		return nil
	}
	if pkg != nil {
		if o := pkg.Scope().Lookup(s); o != nil {
			if _, ok := o.(*types.TypeName); ok {
				return o.Type()
			}
		}
	}
	return nil
}

func (g *Gen) importedPkg(pkg *types.Package, name string) *types.Package {
	return g.w.importedPkg(pkg, name)
}

func (w *World) importedPkg(pkg *types.Package, name string) *types.Package {
	if pkg == nil {
		return nil
	}
	for _, p := range pkg.Imports() {
		if p.Name() == name {
			return p
		}
	}
	if pkg.Name() == name {
		return pkg
	}
	return nil
}

func (w *World) pkgByShort(name string) *types.Package {
	var best *types.Package
	score := func(path string) int {
		if strings.HasPrefix(path, "github.com/f1bonacc1/process-compose") {
			return len(path) - 1000
		}
		return len(path)
	}
	for path, p := range w.allPkgs {
		if p.Name() == name || shortPkg(path) == name {
			if best == nil || score(path) < score(best.Path()) {
				best = p
			}
		}
	}
	return best
}

package main

// Replay of counterexamples against the real code.
//
// For a failed obligation with a model, the model's values for the function's parameters (and the
// heap cells the replay template names) are substituted into a Go test template
// (/verif/replay_templates/<function>.tmpl), which is injected as an in-package test through
// `go test -overlay` (nothing is written under /repo) and run against the real function.
// Without a template, or without a model, the replay file records the obligation and the solver
// output and the violation is reported with no-failing-input-found.

import (
	"encoding/json"
	"fmt"
	"os"
	"os/exec"
	"path/filepath"
	"regexp"
	"strings"
	"time"
)

var defineFunRe = regexp.MustCompile(`\(define-fun\s+(\S+)\s+\(\)\s+(\S+)\s+([^\n]*?)\)\s*$`)

// parseModel extracts scalar constants from a z3 model.
func parseModel(model string) map[string]string {
	out := map[string]string{}
	lines := strings.Split(model, "\n")
	for i := 0; i < len(lines); i++ {
		l := strings.TrimSpace(lines[i])
		if strings.HasPrefix(l, "(define-fun ") && strings.HasSuffix(l, "()") == false {
			// z3 prints "(define-fun name () Sort" then value on the next line
			fs := strings.Fields(l)
			if len(fs) >= 4 && fs[2] == "()" && i+1 < len(lines) {
				val := strings.TrimSpace(lines[i+1])
				val = strings.TrimSuffix(val, ")")
				if strings.HasPrefix(val, "(- ") {
					val = "-" + strings.TrimSuffix(strings.TrimPrefix(val, "(- "), ")")
				}
				out[fs[1]] = strings.TrimSpace(val)
			}
		}
	}
	return out
}

type replayMeta struct {
	Property   string            `json:"property"`
	Obligation string            `json:"obligation"`
	Function   string            `json:"function"`
	Clause     string            `json:"clause"`
	Position   string            `json:"position"`
	Verdict    string            `json:"verdict"`
	Backend    string            `json:"backend"`
	Values     map[string]string `json:"model_values,omitempty"`
	Template   string            `json:"template,omitempty"`
	TestFile   string            `json:"test_file,omitempty"`
	Package    string            `json:"package,omitempty"`
	Confirmed  bool              `json:"confirmed"`
	Output     string            `json:"replay_output,omitempty"`
	Solver     string            `json:"solver_output,omitempty"`
}

func templateFor(fn string) (string, string, bool) {
	path := filepath.Join(verifDir, "replay_templates", mangle(fn)+".tmpl")
	data, err := os.ReadFile(path)
	if err != nil {
		return "", "", false
	}
	return path, string(data), true
}

var placeholderRe = regexp.MustCompile(`\{\{([^}]+)\}\}`)

// doReplay writes the replay file for a failed obligation and, where possible, runs it on the real code.
func doReplay(w *World, prop string, o *Obligation, dir string) (string, bool) {
	meta := replayMeta{Property: prop, Obligation: o.Name, Function: o.Func, Clause: o.Text, Position: o.Pos, Verdict: o.Result, Backend: o.Backend}
	rp := filepath.Join(dir, mangle(o.Name)+".json")
	if o.ModelQuery != "" {
		meta.Values = parseModel(o.Model)
	}
	meta.Solver = truncate(o.Model, 20000)
	confirmed := false
	if tpath, tmpl, ok := templateFor(o.Func); ok && o.ModelQuery != "" {
		meta.Template = tpath
		confirmed = runTemplate(w, &meta, tmpl, dir, o)
	}
	meta.Confirmed = confirmed
	data, _ := json.MarshalIndent(meta, "", " ")
	os.WriteFile(rp, append(data, '\n'), 0o644)
	return rp, confirmed
}

// runTemplate instantiates the template with model values and runs it with go test -overlay.
func runTemplate(w *World, meta *replayMeta, tmpl string, dir string, o *Obligation) bool {
	// header: "// package: <import path dir relative to /repo>" and "// run: <TestName>"
	pkgDir, testName := "", ""
	for _, l := range strings.Split(tmpl, "\n") {
		l = strings.TrimSpace(l)
		if strings.HasPrefix(l, "// package:") {
			pkgDir = strings.TrimSpace(strings.TrimPrefix(l, "// package:"))
		}
		if strings.HasPrefix(l, "// run:") {
			testName = strings.TrimSpace(strings.TrimPrefix(l, "// run:"))
		}
	}
	if pkgDir == "" || testName == "" {
		meta.Output = "template lacks // package: or // run: header"
		return false
	}
	missing := false
	evals := evalTerms(tmpl, o)
	src := placeholderRe.ReplaceAllStringFunc(tmpl, func(m string) string {
		spec := strings.TrimSpace(m[2 : len(m)-2])
		if v, ok := evals[spec]; ok {
			return v
		}
		if strings.HasPrefix(spec, "int:") || strings.HasPrefix(spec, "bool:") || strings.HasPrefix(spec, "str:") {
			missing = true
			switch {
			case strings.HasPrefix(spec, "int:"):
				return "0"
			case strings.HasPrefix(spec, "bool:"):
				return "false"
			}
			return `""`
		}
		// {{name|default}}
		def := ""
		if i := strings.Index(spec, "|"); i >= 0 {
			def = spec[i+1:]
			spec = spec[:i]
		}
		if spec == "obligation" {
			return o.Name
		}
		if v, ok := meta.Values[spec]; ok {
			return v
		}
		if def != "" {
			return def
		}
		missing = true
		return "0"
	})
	if missing {
		meta.Output = "model does not give a value for every template placeholder"
	}
	work, err := os.MkdirTemp("", "govc-replay-")
	if err != nil {
		meta.Output = err.Error()
		return false
	}
	defer os.RemoveAll(work)
	testSrc := filepath.Join(work, "zz_govc_replay_test.go")
	os.WriteFile(testSrc, []byte(src), 0o644)
	keep := filepath.Join(dir, mangle(o.Name)+"_test.go.txt")
	os.WriteFile(keep, []byte(src), 0o644)
	meta.TestFile = keep
	meta.Package = pkgDir
	ov := map[string]map[string]string{"Replace": {filepath.Join(repoDir, pkgDir, "zz_govc_replay_test.go"): testSrc}}
	ovData, _ := json.Marshal(ov)
	ovPath := filepath.Join(work, "overlay.json")
	os.WriteFile(ovPath, ovData, 0o644)
	cmd := exec.Command("go", "test", "-overlay", ovPath, "-vet=off", "-count=1", "-timeout", "60s", "-run", "^"+testName+"$", "./"+pkgDir)
	cmd.Dir = repoDir
	cmd.Env = append(os.Environ(), "GOFLAGS=-mod=mod", "GOPROXY=off", "GOSUMDB=off", "GOTOOLCHAIN=local")
	done := make(chan struct{})
	var out []byte
	go func() { out, _ = cmd.CombinedOutput(); close(done) }()
	select {
	case <-done:
	case <-time.After(120 * time.Second):
		if cmd.Process != nil {
			cmd.Process.Kill()
		}
		<-done
	}
	meta.Output = truncate(string(out), 8000)
	// the generated test FAILS (or panics) when the real code violates the clause for the model's input
	return strings.Contains(string(out), "GOVC-REPLAY-VIOLATION") || strings.Contains(string(out), "panic:")
}

func replayMain(prop, path string) int {
	var meta replayMeta
	if err := readJSON(path, &meta); err != nil {
		data, e2 := os.ReadFile(path)
		if e2 != nil {
			fmt.Fprintln(os.Stderr, "cannot read replay file:", e2)
			return 2
		}
		fmt.Print(string(data))
		return 1
	}
	fmt.Printf("obligation: %s\nclause: %s\nposition: %s\nsolver: %s (%s)\n", meta.Obligation, meta.Clause, meta.Position, meta.Verdict, meta.Backend)
	if meta.TestFile == "" {
		fmt.Println("no executable replay recorded (no-failing-input-found); solver output follows")
		fmt.Println(meta.Solver)
		return 1
	}
	src, err := os.ReadFile(meta.TestFile)
	if err != nil {
		fmt.Fprintln(os.Stderr, err)
		return 2
	}
	work, _ := os.MkdirTemp("", "govc-replay-")
	defer os.RemoveAll(work)
	testSrc := filepath.Join(work, "zz_govc_replay_test.go")
	os.WriteFile(testSrc, src, 0o644)
	ov := map[string]map[string]string{"Replace": {filepath.Join(repoDir, meta.Package, "zz_govc_replay_test.go"): testSrc}}
	ovData, _ := json.Marshal(ov)
	ovPath := filepath.Join(work, "overlay.json")
	os.WriteFile(ovPath, ovData, 0o644)
	cmd := exec.Command("go", "test", "-overlay", ovPath, "-vet=off", "-count=1", "-timeout", "60s", "-run", "GovcReplay", "./"+meta.Package)
	cmd.Dir = repoDir
	cmd.Env = append(os.Environ(), "GOFLAGS=-mod=mod", "GOPROXY=off", "GOSUMDB=off", "GOTOOLCHAIN=local")
	out, _ := cmd.CombinedOutput()
	fmt.Print(string(out))
	if strings.Contains(string(out), "GOVC-REPLAY-VIOLATION") || strings.Contains(string(out), "panic:") {
		fmt.Printf("VIOLATION property=%s replay=%s\n", prop, path)
		return 1
	}
	return 0
}

// evalTerms evaluates the {{int:T}}, {{bool:T}}, {{str:T}} placeholders of a template in the model of the
// obligation's query, using (get-value).
func evalTerms(tmpl string, o *Obligation) map[string]string {
	out := map[string]string{}
	if o.ModelQuery == "" {
		return out
	}
	var specs []string
	seen := map[string]bool{}
	for _, m := range placeholderRe.FindAllString(tmpl, -1) {
		spec := strings.TrimSpace(m[2 : len(m)-2])
		if (strings.HasPrefix(spec, "int:") || strings.HasPrefix(spec, "bool:") || strings.HasPrefix(spec, "str:")) && !seen[spec] {
			seen[spec] = true
			specs = append(specs, spec)
		}
	}
	if len(specs) == 0 {
		return out
	}
	var lits []string
	for sym := range o.StrLits {
		if strings.Contains(o.ModelQuery, "(declare-fun "+sym+" ") {
			lits = append(lits, sym)
		}
	}
	evalOne := func(terms []string) []string {
		q := "(set-option :produce-models true)\n" + strings.Replace(o.ModelQuery, "(check-sat)", "(check-sat)\n(get-value ("+strings.Join(terms, " ")+"))", 1)
		r := runSolver(solvers[0], q, 20)
		if r.verdict != "sat" {
			return nil
		}
		i := strings.Index(r.output, "(")
		if i < 0 {
			return nil
		}
		sx := parseSexp(r.output[i:])
		if sx == nil || len(sx.kids) != len(terms) {
			return nil
		}
		var vals []string
		for _, k := range sx.kids {
			if len(k.kids) < 2 {
				return nil
			}
			vals = append(vals, k.kids[len(k.kids)-1].String())
		}
		return vals
	}
	// evaluate each placeholder separately so that one ill-formed term does not spoil the others
	litVals := map[string]string{}
	if len(lits) > 0 {
		if vs := evalOne(lits); vs != nil {
			for i, l := range lits {
				litVals[vs[i]] = o.StrLits[l]
			}
		}
	}
	for _, spec := range specs {
		i := strings.Index(spec, ":")
		kind, term := spec[:i], spec[i+1:]
		terms := []string{term}
		if kind == "str" {
			terms = append(terms, "(slen "+term+")")
		}
		vs := evalOne(terms)
		if vs == nil {
			continue
		}
		switch kind {
		case "int":
			v := vs[0]
			if strings.HasPrefix(v, "(- ") {
				v = "-" + strings.TrimSuffix(strings.TrimPrefix(v, "(- "), ")")
			}
			out[spec] = v
		case "bool":
			out[spec] = vs[0]
		case "str":
			if text, ok := litVals[vs[0]]; ok {
				out[spec] = fmt.Sprintf("%q", text)
			} else {
				// a string different from every literal of the function and its contracts
				out[spec] = fmt.Sprintf("%q", "govc-other-"+mangle(vs[0]))
			}
		}
	}
	return out
}

type sexp struct {
	atom string
	kids []*sexp
}

func (s *sexp) String() string {
	if s.kids == nil && s.atom != "" {
		return s.atom
	}
	var ps []string
	for _, k := range s.kids {
		ps = append(ps, k.String())
	}
	return "(" + strings.Join(ps, " ") + ")"
}

func parseSexp(in string) *sexp {
	pos := 0
	var parse func() *sexp
	skip := func() {
		for pos < len(in) && (in[pos] == ' ' || in[pos] == '\n' || in[pos] == '\t' || in[pos] == '\r') {
			pos++
		}
	}
	parse = func() *sexp {
		skip()
		if pos >= len(in) {
			return nil
		}
		if in[pos] == '(' {
			pos++
			n := &sexp{kids: []*sexp{}}
			for {
				skip()
				if pos >= len(in) {
					return n
				}
				if in[pos] == ')' {
					pos++
					return n
				}
				k := parse()
				if k == nil {
					return n
				}
				n.kids = append(n.kids, k)
			}
		}
		start := pos
		if in[pos] == '|' {
			pos++
			for pos < len(in) && in[pos] != '|' {
				pos++
			}
			pos++
			return &sexp{atom: in[start:pos]}
		}
		for pos < len(in) && in[pos] != ' ' && in[pos] != '\n' && in[pos] != ')' && in[pos] != '(' && in[pos] != '\t' {
			pos++
		}
		return &sexp{atom: in[start:pos]}
	}
	return parse()
}

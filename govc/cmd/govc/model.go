package main

// Memory model helpers shared by the SSA translation and the contract evaluator.

import (
	"fmt"
	"go/types"
)

// Val is a typed SMT term.
type Val struct {
	T    string
	Ty   types.Type
	Addr bool // T is the address of a struct of type Ty (Ty is the struct type itself)
}

func (v Val) Sort() Sort {
	if v.Addr {
		return SInt
	}
	return sortOf(v.Ty)
}

type Model struct {
	vc *VC
}

func (m *Model) declRoot() {
	if !m.vc.declSet["root"] {
		m.vc.Declare("root", []Sort{SInt}, SInt)
		m.vc.Def("(= (root 0) 0)")
	}
}

// subAddr returns the address of the embedded struct field f (index i) of the struct at addr.
func (m *Model) subAddr(tn string, fname string, addr string) string {
	fn := subFn(tn, fname)
	if !m.vc.declSet[fn] {
		m.declRoot()
		m.vc.Declare(fn, []Sort{SInt}, SInt)
		par := "par." + tn + "." + fname
		m.vc.Declare(par, []Sort{SInt}, SInt)
		m.vc.Declare("ftag", []Sort{SInt}, SInt)
		m.vc.fresh++
		m.vc.Def(fmt.Sprintf("(forall ((a Int)) (! (and (= (%s (%s a)) a) (not (= (%s a) 0)) (= (root (%s a)) (root a)) (not (= (%s a) a)) (= (ftag (%s a)) %d)) :pattern ((%s a))))", par, fn, fn, fn, fn, fn, m.vc.fresh, fn))
	}
	return App(fn, addr)
}

func (m *Model) valProj(tn, fname string, res Sort, vid string) string {
	fn := valFn(tn, fname)
	m.vc.Declare(fn, []Sort{SInt}, res)
	return App(fn, vid)
}

// fieldLoad reads field i of the struct (type st named tn) at address addr.
func (m *Model) fieldLoad(h *Heap, st *types.Struct, tn string, i int, addr string) Val {
	f := st.Field(i)
	if isStruct(f.Type()) {
		return Val{T: m.subAddr(tn, f.Name(), addr), Ty: f.Type(), Addr: true}
	}
	s := sortOf(f.Type())
	arr := h.Get(fieldVar(tn, f.Name()), ArrSort(SInt, s))
	return Val{T: Sel(arr, addr), Ty: f.Type()}
}

// fieldStore writes a non-struct field.
func (m *Model) fieldStore(h *Heap, st *types.Struct, tn string, i int, addr string, val string) *Heap {
	f := st.Field(i)
	if isStruct(f.Type()) {
		_, ftn, _ := structOf(f.Type())
		return m.structStore(h, f.Type(), ftn, m.subAddr(tn, f.Name(), addr), val)
	}
	s := sortOf(f.Type())
	name := fieldVar(tn, f.Name())
	arr := h.Get(name, ArrSort(SInt, s))
	return h.Set(name, ArrSort(SInt, s), Sto(arr, addr, val))
}

// structLoad produces a struct value id whose projections equal the fields at addr.
func (m *Model) structLoad(h *Heap, t types.Type, addr string) string {
	st, tn, _ := structOf(t)
	vid := m.vc.Fresh("sv."+tn, SInt)
	m.structLoadInto(h, st, tn, addr, vid)
	return vid
}

func (m *Model) structLoadInto(h *Heap, st *types.Struct, tn string, addr string, vid string) {
	for i := 0; i < st.NumFields(); i++ {
		f := st.Field(i)
		if isStruct(f.Type()) {
			fst, ftn, _ := structOf(f.Type())
			inner := m.valProj(tn, f.Name(), SInt, vid)
			m.structLoadInto(h, fst, ftn, m.subAddr(tn, f.Name(), addr), inner)
			continue
		}
		s := sortOf(f.Type())
		arr := h.Get(fieldVar(tn, f.Name()), ArrSort(SInt, s))
		m.vc.Def(Eq(m.valProj(tn, f.Name(), s, vid), Sel(arr, addr)))
	}
}

// structStore writes all fields of struct value vid at addr.
func (m *Model) structStore(h *Heap, t types.Type, tn string, addr string, vid string) *Heap {
	st, _, _ := structOf(t)
	for i := 0; i < st.NumFields(); i++ {
		f := st.Field(i)
		if isStruct(f.Type()) {
			_, ftn, _ := structOf(f.Type())
			h = m.structStore(h, f.Type(), ftn, m.subAddr(tn, f.Name(), addr), m.valProj(tn, f.Name(), SInt, vid))
			continue
		}
		s := sortOf(f.Type())
		name := fieldVar(tn, f.Name())
		arr := h.Get(name, ArrSort(SInt, s))
		h = h.Set(name, ArrSort(SInt, s), Sto(arr, addr, m.valProj(tn, f.Name(), s, vid)))
	}
	return h
}

// zeroVal returns the zero value term of a type.
func (m *Model) zeroVal(t types.Type) string {
	if st, tn, ok := structOf(t); ok && isStruct(t) {
		z := "zero." + tn
		if !m.vc.declSet[z] {
			m.vc.Declare(z, nil, SInt)
			for i := 0; i < st.NumFields(); i++ {
				f := st.Field(i)
				m.vc.Def(Eq(m.valProj(tn, f.Name(), sortOf(f.Type()), z), m.zeroVal(f.Type())))
			}
		}
		return z
	}
	if _, ok := t.Underlying().(*types.Slice); ok {
		m.declSlice()
		return "sl.nil"
	}
	if isString(t) {
		m.vc.ensureStrBase()
	}
	return zeroOfSort(sortOf(t))
}

// structFieldEq expands equality of two struct values field-wise.
func (m *Model) structValEq(t types.Type, a, b string) string {
	st, tn, _ := structOf(t)
	var cs []string
	for i := 0; i < st.NumFields(); i++ {
		f := st.Field(i)
		s := sortOf(f.Type())
		pa, pb := m.valProj(tn, f.Name(), s, a), m.valProj(tn, f.Name(), s, b)
		if isStruct(f.Type()) {
			cs = append(cs, m.structValEq(f.Type(), pa, pb))
		} else {
			cs = append(cs, Eq(pa, pb))
		}
	}
	return And(cs...)
}

// ---- slices: a slice value is an Int id with projections ----

func (m *Model) declSlice() {
	if m.vc.declSet["sl.base"] {
		return
	}
	m.declRoot()
	for _, f := range []string{"sl.base", "sl.off", "sl.len", "sl.cap"} {
		m.vc.Declare(f, []Sort{SInt}, SInt)
	}
	m.vc.Declare("sl.nil", nil, SInt)
	m.vc.Def("(and (= (sl.base sl.nil) 0) (= (sl.off sl.nil) 0) (= (sl.len sl.nil) 0) (= (sl.cap sl.nil) 0))")
	// a slice cannot be longer than the address space
	m.vc.Def("(forall ((s Int)) (! (<= (sl.cap s) 4611686018427387904) :pattern ((sl.cap s))))")
}

// wfSlice: well-formedness of a slice value that comes from the program state.
func (m *Model) wfSlice(s string) string {
	m.declSlice()
	return And(App("<=", "0", App("sl.len", s)), App("<=", App("sl.len", s), App("sl.cap", s)), App("<=", "0", App("sl.off", s)))
}

func (m *Model) slLen(s string) string  { m.declSlice(); return App("sl.len", s) }
func (m *Model) slCap(s string) string  { m.declSlice(); return App("sl.cap", s) }
func (m *Model) slBase(s string) string { m.declSlice(); return App("sl.base", s) }
func (m *Model) slOff(s string) string  { m.declSlice(); return App("sl.off", s) }

// mkSlice declares a fresh slice value with the given components.
func (m *Model) mkSlice(base, off, ln, cp string) string {
	m.declSlice()
	s := m.vc.Fresh("slice", SInt)
	m.vc.Def(And(Eq(App("sl.base", s), base), Eq(App("sl.off", s), off), Eq(App("sl.len", s), ln), Eq(App("sl.cap", s), cp)))
	return s
}

// slAt: position of element i of slice s in the row of its backing array. Kept as an uninterpreted function (defined by
// one axiom) rather than written out as off+i: the term is what quantifier triggers like {s[i]} match on, and a trigger
// whose head is the interpreted + is at the mercy of the solver's arithmetic normalisation (off + (j+1) is flattened and
// no longer matches off + i).
func (m *Model) slAt(s, i string) string {
	m.declSlice()
	if !m.vc.declSet["sl.at"] {
		m.vc.Declare("sl.at", []Sort{SInt, SInt}, SInt)
		m.vc.Def("(forall ((s Int) (i Int)) (! (= (sl.at s i) (+ (sl.off s) i)) :pattern ((sl.at s i))))")
	}
	return App("sl.at", s, i)
}

func elemSort(t types.Type) Sort { return sortOf(t) }

// slElem reads element i of slice s (element type et).
func (m *Model) slElem(h *Heap, et types.Type, s string, i string) string {
	es := elemSort(et)
	name := elemVar(et)
	arr := h.Get(name, ArrSort(SInt, ArrSort(SInt, es)))
	return Sel(Sel(arr, m.slBase(s)), m.slAt(s, i))
}

func (m *Model) slElemStore(h *Heap, et types.Type, s string, i string, v string) *Heap {
	es := elemSort(et)
	name := elemVar(et)
	srt := ArrSort(SInt, ArrSort(SInt, es))
	arr := h.Get(name, srt)
	base := m.slBase(s)
	return h.Set(name, srt, Sto(arr, base, Sto(Sel(arr, base), m.slAt(s, i), v)))
}

// ---- maps ----

func (m *Model) mapDom(h *Heap, mt *types.Map, mp string) string {
	ks := sortOf(mt.Key())
	arr := h.Get(mapDomVar(mt), ArrSort(SInt, ArrSort(ks, SBool)))
	return Sel(arr, mp)
}

func (m *Model) mapVals(h *Heap, mt *types.Map, mp string) string {
	ks := sortOf(mt.Key())
	vs := sortOf(mt.Elem())
	arr := h.Get(mapValVar(mt), ArrSort(SInt, ArrSort(ks, vs)))
	return Sel(arr, mp)
}

func (m *Model) mapHas(h *Heap, mt *types.Map, mp, k string) string {
	return And(Not(Eq(mp, "0")), Sel(m.mapDom(h, mt, mp), k))
}

func (m *Model) mapGet(h *Heap, mt *types.Map, mp, k string) string {
	return Sel(m.mapVals(h, mt, mp), k)
}

func (m *Model) mapSet(h *Heap, mt *types.Map, mp, k, v string) *Heap {
	ks := sortOf(mt.Key())
	vs := sortOf(mt.Elem())
	dn, vn := mapDomVar(mt), mapValVar(mt)
	ds, vsrt := ArrSort(SInt, ArrSort(ks, SBool)), ArrSort(SInt, ArrSort(ks, vs))
	d := h.Get(dn, ds)
	va := h.Get(vn, vsrt)
	h = h.Set(dn, ds, Sto(d, mp, Sto(Sel(d, mp), k, "true")))
	h = h.Set(vn, vsrt, Sto(va, mp, Sto(Sel(va, mp), k, v)))
	return h
}

func (m *Model) mapDelete(h *Heap, mt *types.Map, mp, k string) *Heap {
	ks := sortOf(mt.Key())
	dn := mapDomVar(mt)
	ds := ArrSort(SInt, ArrSort(ks, SBool))
	d := h.Get(dn, ds)
	return h.Set(dn, ds, Sto(d, mp, Sto(Sel(d, mp), k, "false")))
}

func (m *Model) mapCard(h *Heap, mt *types.Map, mp string) string {
	ks := sortOf(mt.Key())
	fn := "card." + sortTagS(ks)
	if !m.vc.declSet[fn] {
		m.vc.Declare(fn, []Sort{ArrSort(ks, SBool)}, SInt)
		m.vc.Def(fmt.Sprintf("(forall ((d (Array %s Bool))) (! (>= (%s d) 0) :pattern ((%s d))))", ks, fn, fn))
		m.vc.Def(fmt.Sprintf("(= (%s ((as const (Array %s Bool)) false)) 0)", fn, ks))
		// adding a new key increases the cardinality by one; re-adding keeps it
		m.vc.Def(fmt.Sprintf("(forall ((d (Array %s Bool)) (k %s)) (! (= (%s (store d k true)) (ite (select d k) (%s d) (+ (%s d) 1))) :pattern ((%s (store d k true)))))", ks, ks, fn, fn, fn, fn))
		m.vc.Def(fmt.Sprintf("(forall ((d (Array %s Bool)) (k %s)) (! (= (%s (store d k false)) (ite (select d k) (- (%s d) 1) (%s d))) :pattern ((%s (store d k false)))))", ks, ks, fn, fn, fn, fn))
	}
	return Ite(Eq(mp, "0"), "0", App(fn, m.mapDom(h, mt, mp)))
}

// ---- allocation ----

const allocVar = "$alloc"

func (m *Model) allocNow(h *Heap) string { return h.Get(allocVar, SInt) }

// alloc returns a fresh root reference and the heap after bumping the allocation counter.
func (m *Model) alloc(h *Heap, guard string, what string) (string, *Heap) {
	m.declRoot()
	a := m.allocNow(h)
	r := m.vc.Fresh("new."+what, SInt)
	m.vc.Def(And(Eq(r, a), App(">", r, "0"), Eq(App("root", r), r)))
	_ = guard
	return r, h.Set(allocVar, SInt, App("+", a, "1"))
}

// allocated: the value (a reference-like term) existed before the allocation counter value a.
func (m *Model) allocatedBefore(ref string, a string) string {
	m.declRoot()
	return App("<", App("root", ref), a)
}

// ---- interfaces ----

func (m *Model) mkIface(t types.Type, v string) string {
	tn := typeName(t)
	fn := "box." + tn
	s := sortOf(t)
	if !m.vc.declSet[fn] {
		m.vc.Declare("dyntype", []Sort{SInt}, SInt)
		m.vc.Declare(fn, []Sort{s}, SInt)
		m.vc.Declare("unbox."+tn, []Sort{SInt}, s)
		tag := m.typeTag(t)
		m.vc.Def(fmt.Sprintf("(forall ((x %s)) (! (and (not (= (%s x) 0)) (= (dyntype (%s x)) %s) (= (unbox.%s (%s x)) x)) :pattern ((%s x))))", s, fn, fn, tag, tn, fn, fn))
	}
	return App(fn, v)
}

func (m *Model) typeTag(t types.Type) string {
	tn := "tag." + typeName(t)
	if !m.vc.declSet[tn] {
		m.vc.Declare(tn, nil, SInt)
		m.vc.Declare("dyntype", []Sort{SInt}, SInt)
		// distinctness of tags is emitted by the generator at the end (Prelude does not know them);
		// we approximate by giving each tag a distinct numeral.
		m.vc.fresh++
		m.vc.Def(Eq(tn, IntLit(int64(1000+m.vc.fresh))))
	}
	return tn
}

func (m *Model) unbox(t types.Type, iv string) string {
	m.mkIface(t, m.zeroVal(t)) // ensure declarations
	return App("unbox."+typeName(t), iv)
}

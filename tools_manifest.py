#!/usr/bin/env python3
"""Regenerate MANIFEST.json checks / not_applicable from specs/properties.json and specs/manifest_text.json."""
import json
props=[json.loads(l) for l in open('/verif/properties.jsonl')]
cfg=json.load(open('/verif/specs/properties.json'))
txt=json.load(open('/verif/specs/manifest_text.json'))
m=json.load(open('/verif/MANIFEST.json'))
checks=[];na=[]
for p in props:
    pid=p['id']
    t=txt.get(pid,{})
    if pid in cfg and not t.get('not_applicable'):
        checks.append({"property_id":pid,"quick_cmd":f"./check {pid} --tier quick","thorough_cmd":f"./check {pid} --tier thorough",
          "evidence_file":f"/verif/evidence/{pid}.json","replay_cmd_template":f"./check {pid} --replay {{path}}","engine":"govc",
          "level_claimed":{"category":t.get("category","proof"),"text":t.get('level_text','contract obligations discharged for all inputs'),"design_ref":t.get('design_ref','DESIGN.md §4')},
          "level_note":t.get('level_note','see evidence trusted_base'),
          "technique":t.get("technique","contract-based deductive verification: WP over go/ssa + SMT (z3/cvc5)")})
    else:
        na.append({"property_id":pid,"reason":t.get('not_applicable','check not built yet (work in progress; see DESIGN.md)')})
m['checks']=checks;m['not_applicable']=na
import subprocess
log=subprocess.run(['git','-C','/repo','log','--format=%h %s'],capture_output=True,text=True).stdout.splitlines()
m['hooks']['source_commits']=[l.split()[0] for l in reversed(log) if l.split(' ',1)[1].startswith('verif:')]
m['engines'][0]['serves_properties']=[c['property_id'] for c in checks]
json.dump(m,open('/verif/MANIFEST.json','w'),indent=1)
print(len(checks),'checks',len(na),'n/a')
